#!/bin/bash
# Determinism self-test (DESIGN.md §7): every family is executed for N seeds in separate
# processes at worker counts 1, 4 and 16 (and twice at 16); the per-run digests (interleaving hash,
# all counters, all state hashes, violations, the recorded schedule and fault log) must be identical.
# usage: selftest_determinism.sh [runs-per-family] [seed]
set -u
N="${1:-2000}"
SEED="${2:-7}"
ROOT="$(cd "$(dirname "${BASH_SOURCE[0]}")/.." && pwd)"
LLSIM="$ROOT/sim/target/release/llsim"
OUT="$ROOT/sim/target/tmp/selftest-$$"
mkdir -p "$OUT"
FAMS="K1 K2 K3 K4 K5 K6 K7 K8 K9 KE Q1 Q1open Q1crash Q3 Q5 Q6 Q7 Q9 Q13 Q2 Q4 Q8 QB QM QC"
PROPS="1,3,4,5,10,13,15,21"
fail=0
run_cfg() { # name nshards
  local name=$1 n=$2
  for f in $FAMS; do
    local runs=$N
    case $f in Q3|Q4|Q2|Q8) runs=$((N/10)) ;; esac
    for s in $(seq 0 $((n-1))); do
      "$LLSIM" digest $PROPS $f $SEED $s $n $runs > "$OUT/$name-$f-$s.txt" &
    done
    wait
    cat "$OUT/$name-$f-"*.txt | sort -k2,2n > "$OUT/$name-$f.all"
    rm -f "$OUT/$name-$f-"*.txt
  done
}
run_cfg w1 1
run_cfg w4 4
run_cfg w16a 16
run_cfg w16b 16
total=0
for f in $FAMS; do
  for other in w4 w16a w16b; do
    if ! cmp -s "$OUT/w1-$f.all" "$OUT/$other-$f.all"; then
      echo "NONDETERMINISM: family $f differs between w1 and $other:"
      diff "$OUT/w1-$f.all" "$OUT/$other-$f.all" | head -5
      fail=1
    fi
  done
  total=$((total + $(wc -l < "$OUT/w1-$f.all")))
done
echo "determinism self-test: $total runs x 4 executions (worker counts 1,4,16,16), seed $SEED: $([ $fail = 0 ] && echo IDENTICAL || echo DIFFERENT)"
rm -rf "$OUT"
exit $((fail * 2))
