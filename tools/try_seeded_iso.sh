#!/bin/bash
# usage: try_seeded_iso.sh <seeded-dir-name> <check-id>... [-- tier]
# Like try_seeded.sh, but touches neither /repo nor /verif: a scratch worktree of /repo (HEAD) gets
# the patch, a scratch copy of /verif (sources as they are NOW, without build output) gets its
# dependency paths pointed at that worktree, and the checks run there.  Used while a background run
# builds from the live /repo, and to keep /verif/sim editable while a long batch runs.
# The scratch copies live in $ISO (default /tmp/iso) and are reused between calls (incremental
# builds); remove them with `try_seeded_iso.sh --clean`.
set -u
ISO="${ISO:-/tmp/iso}"
if [ "${1:-}" = "--clean" ]; then
  git -C /repo worktree remove --force "$ISO/repo" 2>/dev/null
  rm -rf "$ISO"; git -C /repo worktree prune
  exit 0
fi
NAME="$1"; shift
TIER=quick
CHECKS=()
while [ $# -gt 0 ]; do
  if [ "$1" = "--" ]; then TIER="$2"; break; fi
  CHECKS+=("$1"); shift
done
PATCH="/verif/seeded/$NAME/patch.diff"
mkdir -p "$ISO"
# --- scratch worktree of /repo at HEAD with the patch ---
if [ ! -d "$ISO/repo" ]; then
  git -C /repo worktree prune
  git -C /repo worktree add -q --detach "$ISO/repo" HEAD || { echo "worktree failed"; exit 2; }
fi
git -C "$ISO/repo" checkout -q --detach "$(git -C /repo rev-parse HEAD)" && git -C "$ISO/repo" checkout -- . || exit 2
if [ "$NAME" != none ]; then
  git -C "$ISO/repo" apply "$PATCH" || { echo "patch does not apply"; exit 2; }
fi
# --- scratch copy of /verif (keeps its own target dir between calls) ---
mkdir -p "$ISO/verif"
rsync -a --delete --exclude '/sim/target' --exclude '/.git' --exclude '/replays' --exclude '/evidence' /verif/ "$ISO/verif/"
mkdir -p "$ISO/verif/replays" "$ISO/verif/evidence"
sed -i "s#/repo/core#$ISO/repo/core#g" "$ISO/verif/sim/Cargo.toml"
sed -i "s#/repo/eval#$ISO/repo/eval#g" "$ISO/verif/check"
export LLSIM_ROOT="$ISO/verif"
unset LLSIM_REPLAY_BIN
for c in "${CHECKS[@]}"; do
  START=$(date +%s)
  OUT=$("$ISO/verif/check" "$c" "$TIER" 2>&1); RC=$?
  END=$(date +%s)
  echo "== $NAME vs $c ($TIER): exit $RC in $((END-START))s"
  echo "$OUT" | grep -E "VIOLATION|KNOWN-FINDING|HARNESS|^  C" | cut -c1-400 | head -8
done
git -C "$ISO/repo" checkout -- .
