#!/bin/bash
# usage: run_all.sh [quick|thorough] [ids...]  - runs the registered checks on the current tree
TIER="${1:-quick}"; shift
IDS="${*:-C01 C02 C03 C04 C05 C06 C07 C08 C09 C10 C11 C12 C13 C14 C15 C17 C18 C20 C21}"
for p in $IDS; do
  S=$(date +%s); OUT=$("$(dirname "${BASH_SOURCE[0]}")/../check" $p $TIER 2>&1); RC=$?; E=$(date +%s)
  echo "$p $TIER exit=$RC $((E-S))s $(echo "$OUT" | grep -cE '^VIOLATION') violations $(echo "$OUT" | grep -cE '^KNOWN-FINDING') known"
  echo "$OUT" | grep -E "^VIOLATION|^HARNESS" | head -5
done
