#!/bin/bash
# usage: try_seeded.sh <seeded-dir-name> <check-id>... [-- tier]
# Applies /verif/seeded/<name>/patch.diff to /repo, runs the given checks, and ALWAYS reverts /repo.
set -u
NAME="$1"; shift
TIER=quick
CHECKS=()
while [ $# -gt 0 ]; do
  if [ "$1" = "--" ]; then TIER="$2"; break; fi
  CHECKS+=("$1"); shift
done
PATCH="/verif/seeded/$NAME/patch.diff"
if [ -n "$(git -C /repo status --porcelain --untracked-files=no)" ]; then
  echo "refusing: /repo has uncommitted changes"; exit 2
fi
git -C /repo apply "$PATCH" || { echo "patch does not apply"; exit 2; }
trap 'git -C /repo checkout -- . ; echo "[/repo reverted]"' EXIT
export LLSIM_ROOT=/verif/sim/target/seeded-out
export LLSIM_REPLAY_BIN=/verif/sim/target/eval/release/replay
mkdir -p "$LLSIM_ROOT"; cp /verif/known_findings.json "$LLSIM_ROOT/"
for c in "${CHECKS[@]}"; do
  START=$(date +%s)
  OUT=$(/verif/check "$c" "$TIER" 2>&1); RC=$?
  END=$(date +%s)
  echo "== $NAME vs $c ($TIER): exit $RC in $((END-START))s"
  echo "$OUT" | grep -E "VIOLATION|KNOWN-FINDING|HARNESS|^  C" | cut -c1-400 | head -8
done
