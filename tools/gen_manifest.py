#!/usr/bin/env python3
"""Regenerates /verif/MANIFEST.json (kept in one place so that it stays consistent)."""
import json, subprocess, sys

hook_commits = ["b235335", "25d625e"]

T_CONC = "deterministic simulation: real threads under a seeded token scheduler (uniform/PCT/burst/after-write/stall schedules, spurious weak-CAS failures; for a sample of small cases every depth-1 PCT schedule is enumerated: each priority order of the threads x each step at which the running thread is demoted) at every atomic operation of the real allocator; invariants checked at every call return and over the recorded history"
T_SEQ = "deterministic simulation, single simulated caller: long seeded call histories on the real allocator judged call by call by an executable reference model (frame ownership only)"

checks = {
 "C01": dict(cat="exploration", tech=T_CONC + "; oracle: held-set disjointness / alignment / range at every get return",
    text="Seeded search over interleavings (2-3 threads, <=6 calls each, 1-4 trees, families K1-K6) plus sequential histories; every successful allocation is checked at its return instant against the set of blocks held at that instant. Finds the narrow windows (multi-row CAS rollback, multi-huge CAS) within seconds; a clean batch is evidence, not proof.",
    note="sequentially consistent executions only; <=3 threads; sampling, not enumeration of all interleavings", ref="DESIGN.md §4 C01, §2.2-2.5"),
 "C02": dict(cat="exploration", tech=T_SEQ + "; full per-frame state comparison after every call",
    text="Seeded random sequential histories (20-120 calls) over 1-4 trees (one run in twelve: up to 24 trees) incl. partial last trees, simple/movable/zeroed classings, free-all and allocate-all starts; success/failure of every free and targeted allocation is predicted exactly by the model and the status of every frame is compared after every call that changed anything (and periodically otherwise).",
    note="bounded-exhaustive enumeration of an operation alphabet is not attempted (that would be model checking); the quick tier runs the default geometry and short batches of the 8-huge-frames-per-tree and the 16K-frame builds, the thorough tier all five geometries", ref="DESIGN.md §4 C02"),
 "C03": dict(cat="exploration", tech=T_CONC + "; oracle: no panic in any thread, put of a held block returns Ok",
    text="Same interleaving search as C01 with stall/PCT-biased schedules and emphasis on threads freeing different parts of one split huge frame; every call runs under catch_unwind, panics are identified by message+file. One genuine defect is a recorded known finding (partial_put_huge gives up after 4 spins).",
    note="known finding C03/panic:lower.rs:Exceeding_retries ends ~25% of the K3 runs early", ref="DESIGN.md §4 C03, §6"),
 "C04": dict(cat="exploration", tech=T_SEQ + " and " + T_CONC + "; oracle: stats/stats_at/is_free/tree_stats/validate vs model at every quiescent point",
    text="All accounting views are compared with the model after every call of sequential histories (Q1, Q5 offline/online, Q9) and after the join of every concurrent interleaving, where the final state is history-determined, so residue of failed or rolled back operations shows as a count mismatch.",
    note="concurrent runs that end in a panic are skipped", ref="DESIGN.md §4 C04"),
 "C05": dict(cat="fault_enumeration", tech="deterministic simulation with crash fault injection: the persistent buffer is snapshotted at every hooked atomic write (and after every call return) of each explored history/interleaving and recovered on the side (Init::Recover, zeroed volatile buffers); oracle R1/R2/R3 over the ledger of completed and in-flight calls",
    text="Within each explored history or interleaving the crash fault is enumerated at every persistent write; the histories and interleavings themselves are seeded samples. Checks that completed allocations survive and can be freed with their order, free untouched frames are free, recovered fast and exact counts agree, recovery does not panic; frame counts include partial last trees and partial huge frames.",
    note="strict persistency (prefix of the write order is durable); relaxed cross-cache-line persistence not modelled", ref="DESIGN.md §4 C05"),
 "C06": dict(cat="exploration", tech="deterministic simulation harness used as a configuration sweep (no schedule dimension): init + exhaustion / free-everything driven through the real allocator and judged by the model",
    text="Quick: boundary frame counts around multiples of 64, HUGE_FRAMES and TREE_FRAMES (+-3) plus seeded values; thorough: every frame count from 1 to 4 trees in both init modes. Exactly the managed frames are allocatable / freeable once, all views equal the model, nothing at or beyond the managed count is reported or returned.",
    note="single-thread; the quick tier runs the default geometry and short batches of the 8-huge-frames-per-tree and the 16K-frame builds, the thorough tier all five geometries", ref="DESIGN.md §4 C06"),
 "C07": dict(cat="exploration", tech=T_SEQ + " with a warm-restart fault: at a seeded quiescent point the three metadata buffers are byte-copied and a second allocator is built with Init::None; both are then driven in lock-step",
    text="Lock-step equality of every call result and of stats / tree_stats (all fields) / sampled stats_at between the original and the allocator rebuilt from its metadata, over seeded continuations including drains and tree changes.",
    note="one handoff per history at a random point", ref="DESIGN.md §4 C07"),
 "C08": dict(cat="exploration", tech=T_SEQ + " with injected malformed calls and malformed metadata buffers",
    text="Malformed calls (order up to TREE_ORDER+3, frames at/after the range end, misaligned, near usize::MAX, unconfigured classes) are mixed into random histories; each must return the invalid-argument error and leave frame state, tree array and fast counters unchanged. Construction with each buffer one byte short, shifted by 1..63 bytes or overlapping another must return the initialization error. Family QC: class configurations with ids drawn from 0..8 (not 0..n-1), calls naming an unconfigured id must be rejected without side effects.",
    note="zone-offset rejection is covered by the C17 check", ref="DESIGN.md §4 C08"),
 "C09": dict(cat="exploration", tech=T_SEQ + " over the opened-up configuration space (zero frames, zero-slot classes, zeroed policy, any tree id, targeted gets with slots)",
    text="Every call of every history runs under catch_unwind; a panic (message + file = signature) is a violation. Aborts are seen as worker deaths and attributed to the announced run.",
    note="init modes Recover/None over foreign buffers are exercised by the C05/C07 checks", ref="DESIGN.md §4 C09"),
 "C10": dict(cat="exploration", tech=T_SEQ + " with drain-then-probe steps; also probes after the join of concurrent interleavings (K3-K5, K7, K9)",
    text="At quiescent points: drain, then a base-order allocation must not fail while the model has a free frame outside offline trees, and a targeted allocation must succeed iff the model says the block is free and online. After concurrent runs additionally: base frames until out-of-memory must hand out every frame the model has free (when the tree array shows a counter below the lower level's count).",
    note="policies that return Invalid are excluded, as the property states", ref="DESIGN.md §4 C10"),
 "C11": dict(cat="exploration", tech=T_SEQ + " restricted to one slot, base order, no drains; exhaustion phases followed by frees through the slot or without one",
    text="Out-of-memory is only accepted when the model has no free frame; boundary where exactly the needed frames sit in the global counter of the slot's own reserved tree is reached in almost every run.",
    note="2-4 trees; two runs in three start from free-all, one from allocate-all (frames of the initial huge blocks are freed one by one); rare restarts in place", ref="DESIGN.md §4 C11"),
 "C12": dict(cat="exploration", tech="deterministic simulation harness as state-reachability probe: structured allocation patterns are built through the real lower-level API, then a directed search (Lower::get) is issued for every order from a hint in every row and judged by the model",
    text="A failed search is a violation iff the model has an aligned free block of that order in the tree; a success must mark exactly that block (full comparison on a sample of probes, counters on all).",
    note="single-thread by the property's own restriction; needs verif::row_id to build the hint", ref="DESIGN.md §4 C12"),
 "C13": dict(cat="exploration", tech=T_CONC + " and " + T_SEQ + "; oracle: policy evaluated on (requested class, reported class)",
    text="Every successful allocation in sequential histories (simple, movable, zeroed, custom policy with unusable pairs) and in concurrent interleavings must report the requested class or one the policy rates Match/Steal.",
    note="", ref="DESIGN.md §4 C13"),
 "C14": dict(cat="exploration", tech=T_SEQ + "; oracle: two sum identities over tree_stats().classes after every call",
    text="Sum over classes of free+alloc equals trees*TREE_FRAMES and the per-class free counts sum to the fast total, with reservations present, after drains, with offline trees and class changes.",
    note="", ref="DESIGN.md §4 C14"),
 "C15": dict(cat="exploration", tech=T_SEQ + " with offline/online/class changes (by id and by matcher) judged by observation of the tree array; plus concurrent runs with offline/online pairs (K4 reservation churn; K9: slots holding reservations of entirely free trees while other threads drain, take those trees offline and allocate through the slots)",
    text="Offline of an unreserved entirely free tree must succeed; no allocation returns a frame of an offline tree; the fast count excludes it; online restores the counter and the requested class; a change touches exactly one matching unreserved tree or nothing. Concurrent runs: a get invoked after an offline request returned must not return a frame of that tree (event order); every tree is emptied, taken offline and probed through every slot at the end of a run; a successful compare-exchange of a tree-change call on an entry that is reserved at that moment is reported.",
    note="offline operations are only generated for entirely free trees (the case the property defines)", ref="DESIGN.md §4 C15"),
 "C17": dict(cat="exploration", tech="deterministic simulation with cold-restart fault: NvmAlloc, ZoneAlloc and a plain LLFree driven in lock-step over mmap'ed zones at several aligned bases, then recovery from the zone alone",
    text="Wrapper results equal inner results shifted by the offset; frames below the offset are rejected; no returned frame overlaps the metadata tail or header page; recover of an untouched or differently sized region fails; recover of its own instance reproduces the per-frame state.",
    note="non-quiescent crash points are the C05 check's business", ref="DESIGN.md §4 C17"),
 "C18": dict(cat="exploration", tech="deterministic simulation (all families) with a memory oracle underneath: exact-size metadata buffers flush against PROT_NONE guard pages; thorough tier adds an AddressSanitizer build and a reduced scenario set under Miri",
    text="An out-of-bounds access kills the worker (SIGSEGV), which the parent attributes to the announced run and confirms by replay in a child process.",
    note="guard pages catch out-of-bounds accesses only; aliasing-model UB needs the Miri layer", ref="DESIGN.md §4 C18"),
 "C20": dict(cat="exploration", tech="deterministic discrete-event simulation of a traced multi-core kernel (simulated clock, per-core event streams, whole and partial frees) producing trace files; the shipped replay binary replays them in a separate process; oracle: conservation of frames over the recorded history",
    text="Seeded synthetic traces (1-4 cores, orders 0..10, whole / first / middle / last part and part-of-part frees, frees of unknown pfns) in the on-disk trace format; the replayer's final free_frames must equal managed minus what the trace still holds, no 'Free failed' line, exit status 0. Failing traces are minimised (ddmin over events).",
    note="the binary only exposes counts and log lines; replayer out-of-memory (placement differs from the traced kernel) is counted as inconclusive, not as a violation; re-allocation of a still-present pfn is not generated", ref="DESIGN.md §4 C20"),
 "C21": dict(cat="exploration", tech=T_CONC + " with solo windows: at seeded scheduling points all threads but one are frozen and the in-flight call of that thread must return within a step budget",
    text="Three solo windows per run in the quick tier; exceeding the budget (64 x (rows per huge frame + TREE_HUGE + trees + slots) atomic steps) or the global step cap is a violation; the maximum observed is reported.",
    note="spurious CAS failures are disabled inside solo windows", ref="DESIGN.md §4 C21"),
}

na = [
 ("C16", "SortedBuffer::add/iter and the candidate ranking of Trees::search_best are pure functions of an insertion sequence / a quiescent tree array: no schedule, fault, crash or history dimension, and the simulator's model is not the oracle (that is property-based testing, not simulation)."),
 ("C19", "ClassingConfig::request / Count::to_local are pure functions of (config, order, core, cores, pid, gfp); nothing to schedule or fault."),
 ("C22", "The C implementation is absent (llc/ is an uninitialised submodule with update=none and nothing can be fetched); simulating against a stub would test the stub."),
 ("C23", "first_zeros_aligned is a pure function of one 64-bit word and an order; the all-2^64 quantifier needs a symbolic or exhaustive method, not a history oracle."),
]
extra_na = json.loads(sys.argv[1]) if len(sys.argv) > 1 else []
claimed = sorted(checks)
for pid, reason in extra_na:
    na.append((pid, reason))
    claimed.remove(pid) if pid in claimed else None

m = {
 "version": 1,
 "setup_cmd": "cd /verif/sim && CARGO_NET_OFFLINE=true cargo build --release --offline && CARGO_NET_OFFLINE=true cargo build --release --offline --manifest-path /repo/eval/Cargo.toml --bin replay --target-dir /verif/sim/target/eval",
 "hooks": {
   "guard": "cargo feature `verif` of crate llfree (core/Cargo.toml), off by default",
   "enable": "llsim depends on llfree by path (/repo/core) with features std,verif; every check command runs `cargo build` first, so it rebuilds from /repo's current working tree",
   "baseline_off_cmd": "cd /repo && cargo test --workspace --no-fail-fast --offline",
   "source_commits": hook_commits,
   "add_only": True,
 },
 "engines": [
   {"name": "llsim", "path": "/verif/sim", "serves_properties": claimed,
    "kind_free_text": "deterministic simulator: real llfree code, real OS threads released one at a time by a seeded token scheduler at every hooked atomic operation; fault injection (preemption, stall, spurious CAS failure, crash at every persistent write, warm/cold restart, malformed calls and buffers); reference model; replay files and minimiser"},
 ],
 "checks": [],
 "notes": "Exit codes of every command: 0 held on everything explored, 1 with a VIOLATION line (after replay confirmation in a fresh process), 2 harness error. VERIF_SEED selects the runs (default fixed). Known findings: /verif/known_findings.json.",
 "not_applicable": [{"property_id": a, "reason": b} for a, b in sorted(na)],
}
for pid in claimed:
    c = checks[pid]
    m["checks"].append({
      "property_id": pid,
      "quick_cmd": f"/verif/check {pid} quick",
      "thorough_cmd": f"/verif/check {pid} thorough",
      "evidence_file": f"/verif/evidence/{pid}.json",
      "replay_cmd_template": "/verif/sim/target/release/llsim replay {path}",
      "engine": "llsim",
      "level_claimed": {"category": c["cat"], "text": c["text"], "design_ref": c["ref"]},
      "level_note": c["note"] or "sampling, sequentially consistent executions only",
      "technique": c["tech"],
    })
json.dump(m, open("/verif/MANIFEST.json", "w"), indent=1)
print("claimed", claimed)
