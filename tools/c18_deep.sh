#!/bin/bash
# Deep tier of the C18 check: the simulator's scenarios under AddressSanitizer (exact-size heap
# buffers) and a reduced scenario set under Miri (sequential histories, token-scheduled threads,
# and free-running threads for the data race detector).
# Prints VIOLATION / KNOWN-FINDING lines like the other checks, extends /verif/evidence/C18.json.
# exit 0: nothing (unknown) found; 1: violation; 2: harness error
set -u
ROOT="$(cd "$(dirname "${BASH_SOURCE[0]}")/.." && pwd)"
OUTROOT="${LLSIM_ROOT:-$ROOT}"
cd "$ROOT/sim" || exit 2
export CARGO_NET_OFFLINE=true
SEED="${VERIF_SEED:-20260921}"
OUT="$ROOT/sim/target/tmp/c18deep-$$"
mkdir -p "$OUT" "$OUTROOT/replays"
KNOWN="$OUTROOT/known_findings.json"
violations=0; harness=0; known_lines=""
START=$(date +%s)

report() { # signature, reproduce-command, detail-file
  local sig="$1" cmd="$2" log="$3"
  if python3 - "$KNOWN" "$sig" <<'EOF'
import json,sys
k=json.load(open(sys.argv[1]))
sys.exit(0 if any(f.get('status')=='known' and f.get('property')=='C18' and f.get('signature')==sys.argv[2] for f in k['findings']) else 1)
EOF
  then
    known_lines="$known_lines
KNOWN-FINDING: property=C18 signature $sig (see known_findings.json)"
    return
  fi
  local file="$OUTROOT/replays/C18-$(echo "$sig" | tr -c 'A-Za-z0-9-' '_' | cut -c1-60).json"
  python3 - "$file" "$sig" "$cmd" "$log" <<'EOF'
import json,sys
file,sig,cmd,log=sys.argv[1:5]
txt=open(log,errors='replace').read()
i=txt.find('error: Undefined'); j=txt.find('ERROR: AddressSanitizer')
k=max(0,min([x for x in (i,j) if x>=0] or [0]))
json.dump({"property":"C18","signature":sig,"expect":"command","reproduce":cmd,"detail":txt[k:k+3000]}, open(file,'w'), indent=1)
EOF
  echo "VIOLATION property=C18 replay=$file"
  violations=$((violations+1))
}

# ---------------------------------------------------------------- AddressSanitizer
ASAN=target/asan/x86_64-unknown-linux-gnu/release/llsim
asan_runs=0
if RUSTFLAGS="-Zsanitizer=address" cargo +nightly build --release --offline --features heapbuf \
     --target x86_64-unknown-linux-gnu --target-dir target/asan >"$OUT/asan-build.log" 2>&1; then
  for spec in "K1 1500" "K2 1500" "K3 1500" "K4 1500" "K5 1500" "K6 1500" "K7 1500" "Q1open 1500" "Q2 200" "Q6 1000" "Q7 1000" "Q9 500" "QM 20000"; do
    set -- $spec
    echo "$2" >"$OUT/asan-$1.n"
    ( ASAN_OPTIONS=detect_leaks=0 "$ASAN" mem "$1" "$2" "$SEED" >"$OUT/asan-$1.log" 2>&1; echo $? >"$OUT/asan-$1.rc" ) &
  done
  wait
  for spec in K1 K2 K3 K4 K5 K6 K7 Q1open Q2 Q6 Q7 Q9 QM; do
    rc=$(cat "$OUT/asan-$spec.rc")
    n=$(grep -o '[0-9]* runs' "$OUT/asan-$spec.log" | head -1 | cut -d' ' -f1)
    asan_runs=$((asan_runs + ${n:-0}))
    if [ "$rc" != 0 ]; then
      if grep -q "ERROR: AddressSanitizer" "$OUT/asan-$spec.log"; then
        kind=$(grep -o "AddressSanitizer: [a-z-]*" "$OUT/asan-$spec.log" | head -1 | cut -d' ' -f2)
        where=$(grep -o "/repo/core/src/[a-z_]*\.rs" "$OUT/asan-$spec.log" | head -1 | xargs -r basename)
        report "asan:$kind:${where:-unknown}" "cd $ROOT/sim && ASAN_OPTIONS=detect_leaks=0 $ASAN mem $spec $(cat "$OUT/asan-$spec.n") $SEED" "$OUT/asan-$spec.log"
      else
        echo "HARNESS-ERROR: ASan run of $spec exited with $rc"; tail -5 "$OUT/asan-$spec.log"; harness=1
      fi
    fi
  done
else
  echo "HARNESS-ERROR: ASan build failed"; tail -5 "$OUT/asan-build.log"; harness=1
fi

# ---------------------------------------------------------------- Miri
miri_runs=0
MIRI_BASE="-Zmiri-ignore-leaks -Zmiri-disable-isolation"
miri() { # name, flags, args...
  local name="$1" flags="$2"; shift 2
  echo "cd $ROOT/sim && MIRIFLAGS='$MIRI_BASE $flags' CARGO_NET_OFFLINE=true cargo +nightly miri run --offline --target-dir target/miri -- $*" >"$OUT/miri-$name.cmd"
  ( MIRIFLAGS="$MIRI_BASE $flags" cargo +nightly miri run --offline --target-dir target/miri -- "$@" >"$OUT/miri-$name.log" 2>&1; echo $? >"$OUT/miri-$name.rc" )
}
# build once (first invocation), then the scenarios in parallel
miri warm "" mem Q2 0 1
miri seq1 "" mem Q1 2 "$SEED" &
miri seq2 "" mem Q1open 2 "$SEED" &
miri seq3 "" mem Q6 2 "$SEED" &
miri k1 "" mem K1 3 "$SEED" &
miri k3 "" mem K3 3 "$SEED" &
miri k7 "" mem K7 2 "$SEED" &
miri thr-safe "-Zmiri-many-seeds=0..32 -Zmiri-preemption-rate=0.1" mem-threads 2 "$SEED" safe &
miri thr-all "-Zmiri-many-seeds=0..16 -Zmiri-preemption-rate=0.1" mem-threads 2 "$SEED" all &
miri corners "" mem-corners &
wait
for name in seq1 seq2 seq3 k1 k3 k7 thr-safe thr-all corners; do
  rc=$(cat "$OUT/miri-$name.rc")
  n=$(grep -o '[0-9]* runs' "$OUT/miri-$name.log" | awk '{s+=$1} END {print s+0}')
  miri_runs=$((miri_runs + n))
  if grep -q "error: Undefined Behavior" "$OUT/miri-$name.log"; then
    # signature: kind of UB + first llfree source file in the report
    msg=$(grep -m1 "error: Undefined Behavior" "$OUT/miri-$name.log")
    where=$(grep -o "/repo/core/src/[a-z_]*\.rs" "$OUT/miri-$name.log" | head -1 | xargs -r basename)
    case "$msg" in
      *"Race condition"*"-byte atomic"*"-byte atomic"*) kind="race-mixed-size-atomic" ;;
      *"Race condition"*|*"Data race"*) kind="data-race" ;;
      *"retag"*|*"borrow stack"*) kind="aliasing" ;;
      *"out-of-bounds"*|*"dangling"*) kind="out-of-bounds" ;;
      *) kind="other" ;;
    esac
    if [ -z "$where" ]; then
      echo "HARNESS-ERROR: Miri reported UB outside llfree in $name:"; echo "$msg"; harness=1
    else
      report "miri:$kind:$where" "$(cat "$OUT/miri-$name.cmd")" "$OUT/miri-$name.log"
    fi
  elif [ "$rc" != 0 ]; then
    echo "HARNESS-ERROR: Miri scenario $name exited with $rc"; tail -5 "$OUT/miri-$name.log"; harness=1
  fi
done
[ -n "$known_lines" ] && echo "$known_lines" | sort -u | sed '/^$/d'
END=$(date +%s)
echo "C18 deep: asan runs=$asan_runs miri runs=$miri_runs violations=$violations wall=$((END-START))s"

# ---------------------------------------------------------------- evidence
C18_OUTROOT="$OUTROOT" python3 - "$asan_runs" "$miri_runs" "$violations" "$((END-START))" "$(echo "$known_lines" | sort -u | sed '/^$/d')" <<'EOF'
import json,sys
import os
p=os.environ.get("LLSIM_ROOT") or os.path.join(os.path.dirname(os.path.abspath(sys.argv[0] if False else "")), "")
p=os.path.join(os.environ["C18_OUTROOT"], "evidence/C18.json")
try: ev=json.load(open(p))
except Exception: sys.exit(0)
c=ev['coverage']
c['deep_tier']={
 'asan': {'runs': int(sys.argv[1]), 'what': 'llsim built with -Zsanitizer=address and exact-size heap metadata buffers; families K1-K7 (token scheduled), Q1open, Q2, Q6, Q7, Q9'},
 'miri': {'runs': int(sys.argv[2]), 'what': 'cargo +nightly miri: sequential Q1/Q1open/Q6, token-scheduled K1/K3/K7, and free-running 2-thread scenarios over 32+16 Miri scheduler seeds (orders 3..5 excluded in the "safe" set because of the known mixed-size atomic finding)'},
 'wall_s': int(sys.argv[4]),
 'known_findings_seen': [l for l in sys.argv[5].split('\n') if l],
}
ev['violations']=ev.get('violations',0)+int(sys.argv[3])
json.dump(ev,open(p,'w'),indent=1)
EOF
rm -rf "$OUT"
[ $violations -gt 0 ] && exit 1
[ $harness -gt 0 ] && exit 2
exit 0
