#!/bin/bash
# usage: confirm_seeded.sh <name>...   (default: all directories in /verif/seeded with a patch.diff)
# Independent confirmation of a seeded change in a scratch worktree (never in /repo):
#   1. the patch applies and the workspace builds,
#   2. the existing test suite still passes with it (50 tests),
#   3. the demonstration fails with the change,
#   4. the demonstration passes without the change.
# Writes /verif/seeded/<name>/confirmed.txt. The worktree and its build output are removed afterwards.
set -u
export CARGO_NET_OFFLINE=true
SEEDED=/verif/seeded
WT=/tmp/wt/confirm
export CARGO_TARGET_DIR=/tmp/wt/confirm-target
NAMES="${*:-$(cd $SEEDED && ls -d */ | tr -d / )}"
for name in $NAMES; do
  dir="$SEEDED/$name"
  [ -f "$dir/patch.diff" ] || continue
  demo=$(ls "$dir"/demo_*.rs 2>/dev/null | head -1)
  out="$dir/confirmed.txt"
  rm -rf "$WT"; git -C /repo worktree prune
  git -C /repo worktree add -q --detach "$WT" HEAD || { echo "$name: worktree failed"; continue; }
  {
    echo "confirmation of $name at /repo $(git -C /repo rev-parse --short HEAD), $(date -u +%FT%TZ)"
    cd "$WT"
    if ! git apply "$dir/patch.diff"; then echo "RESULT: patch does not apply"; cd /; continue; fi
    # 1+2: suite with the change
    suite=$(nice cargo test --workspace --no-fail-fast --offline 2>&1)
    passed=$(echo "$suite" | grep -E "^test result" | sed -E 's/.* ([0-9]+) passed.*/\1/' | awk '{s+=$1} END {print s+0}')
    failed=$(echo "$suite" | grep -E "^test result" | sed -E 's/.* ([0-9]+) failed.*/\1/' | awk '{s+=$1} END {print s+0}')
    echo "suite with the change: $passed passed, $failed failed (expected >= 50 passed incl. doctest, 0 failed)"
    if [ -n "$demo" ]; then
      base=$(basename "$demo" .rs)
      # where does the demo live? (the agent's notes say; default by the crates it uses)
      if grep -q "core/tests/$base" "$dir/notes.md" 2>/dev/null; then crate=llfree; dst=core/tests
      elif grep -q "eval/tests/$base" "$dir/notes.md" 2>/dev/null || grep -q "llfree_eval" "$demo"; then crate=llfree-eval; dst=eval/tests
      else crate=llfree; dst=core/tests; fi
      feat=""
      grep -q 'feature = "verif"' "$demo" && feat="--features verif,std"
      [ "$crate" = llfree ] && [ -z "$feat" ] && feat="--features std"
      mkdir -p "$dst"; cp "$demo" "$dst/"
      with=$(nice cargo test -p $crate --offline $feat --test "$base" 2>&1); rc_with=$?
      echo "demo with the change: exit $rc_with ($(echo "$with" | grep -E "^test result" | tail -1))"
      git apply -R "$dir/patch.diff"
      without=$(nice cargo test -p $crate --offline $feat --test "$base" 2>&1); rc_without=$?
      echo "demo without the change: exit $rc_without ($(echo "$without" | grep -E "^test result" | tail -1))"
      if [ "$failed" = 0 ] && [ "$passed" -ge 50 ] && [ $rc_with -ne 0 ] && [ $rc_without -eq 0 ]; then
        echo "RESULT: confirmed"
      else
        echo "RESULT: NOT confirmed"
      fi
    else
      [ "$failed" = 0 ] && echo "RESULT: suite passes (no demonstration: benign probe)" || echo "RESULT: NOT confirmed"
    fi
    cd /
  } >"$out" 2>&1
  tail -1 "$out" | sed "s/^/$name: /"
  git -C /repo worktree remove --force "$WT" 2>/dev/null
done
rm -rf "$CARGO_TARGET_DIR" "$WT"; git -C /repo worktree prune
