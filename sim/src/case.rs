//! One simulated execution in replayable form, its generator, and the minimiser.

use std::collections::BTreeMap;
use std::sync::Arc;

use crate::conc::{ConcCase, ConcRunner, GenOpts};
use crate::exec::Arenas;
use crate::json::J;
use crate::oracle::{Props, Violation};
use crate::rng::Rng;
use crate::seq::{Profile, SeqCase, SeqRunner};
use crate::special::SpecialCase;
use crate::world::Strategy;

/// set by the worker for the thorough / geo tiers (more of the expensive fault enumerations)
pub static THOROUGH: std::sync::atomic::AtomicBool = std::sync::atomic::AtomicBool::new(false);

#[derive(Clone, Debug)]
pub enum Case {
    Seq(SeqCase),
    Conc(ConcCase),
    Special(SpecialCase),
}

#[derive(Default)]
pub struct RunOut {
    pub violations: Vec<Violation>,
    pub foreign: Option<Violation>,
    pub hash: u64,
    pub nontrivial: bool,
    pub counters: BTreeMap<String, u64>,
    pub state_hashes: Vec<u64>,
    /// compact description of what happened (for evidence samples)
    pub sample: J,
}

pub struct Ctx {
    pub arenas: Arenas,
    pub side: Arc<Arenas>,
}
impl Ctx {
    pub fn new() -> Self {
        Self {
            arenas: Arenas::new(),
            side: Arc::new(Arenas::new()),
        }
    }
}

/// Generator options of the concurrent families for the enabled oracles
pub fn gen_opts(props: Props) -> GenOpts {
    GenOpts {
        thorough: THOROUGH.load(std::sync::atomic::Ordering::Relaxed),
        custom: props.has(13),
        solo_points: if props.has(21) { 3 } else { 0 },
        stall_bias: props.has(3) || props.has(21),
        probes: props.has(10),
    }
}

fn add(c: &mut BTreeMap<String, u64>, k: &str, v: u64) {
    *c.entry(k.to_string()).or_default() += v;
}
fn maxc(c: &mut BTreeMap<String, u64>, k: &str, v: u64) {
    let e = c.entry(k.to_string()).or_default();
    *e = (*e).max(v);
}

impl Case {
    pub fn to_json(&self) -> J {
        match self {
            Case::Seq(c) => c.to_json(),
            Case::Conc(c) => c.to_json(),
            Case::Special(c) => c.to_json(),
        }
    }
    pub fn from_json(j: &J) -> Option<Self> {
        match j.gs("kind") {
            "seq" => SeqCase::from_json(j).map(Case::Seq),
            "conc" => ConcCase::from_json(j).map(Case::Conc),
            "special" => SpecialCase::from_json(j).map(Case::Special),
            _ => None,
        }
    }

    /// Generate the case for (family, run seed). Sequential cases generate their steps while running.
    pub fn generate(
        family: &str,
        seed: u64,
        index: u64,
        props: Props,
    ) -> (Case, Option<(Rng, usize)>) {
        let mut rng = Rng::new(seed);
        if family.starts_with('K') {
            let o = gen_opts(props);
            (
                Case::Conc(crate::conc::gen_case(&mut rng, family, &o)),
                None,
            )
        } else if family.starts_with('Q') && SpecialCase::is_special(family) {
            (
                Case::Special(SpecialCase::generate(family, seed, index)),
                None,
            )
        } else {
            let profile = Profile::by_name(family);
            let (case, n) = crate::seq::gen_case(&mut rng, &profile);
            (Case::Seq(case), Some((rng, n)))
        }
    }

    /// Execute. For sequential cases `gen` makes the run generate (and record) its steps.
    pub fn run(&mut self, ctx: &Ctx, props: Props, gen_steps: Option<(Rng, usize)>) -> RunOut {
        let mut out = RunOut::default();
        match self {
            Case::Seq(c) => {
                let runner = SeqRunner {
                    arenas: &ctx.arenas,
                    side: Some(ctx.side.clone()),
                    props,
                };
                let r = match gen_steps {
                    Some((mut rng, n)) => runner.run(c, Some((&mut rng, n))),
                    None => runner.run(c, None),
                };
                let s = &r.stats;
                let cs = &mut out.counters;
                add(cs, "calls", s.calls);
                add(cs, "state_changing_calls", s.state_changing);
                add(cs, "gets_ok", s.gets_ok);
                add(cs, "gets_failed", s.gets_oom);
                add(cs, "puts_ok", s.puts_ok);
                add(cs, "puts_rejected_by_model_and_code", s.puts_rejected);
                add(cs, "fault_badarg_calls", s.badargs);
                add(cs, "drains", s.drains);
                add(cs, "tree_changes_ok", s.changes_ok);
                add(cs, "tree_changes_failed", s.changes_err);
                add(cs, "offline_ok", s.offline_ok);
                add(cs, "online_ok", s.online_ok);
                add(cs, "probes_drain_base", s.probes_base);
                add(cs, "probes_drain_targeted", s.probes_at);
                add(
                    cs,
                    "probes_targeted_expected_success",
                    s.probes_at_expected_ok,
                );
                add(cs, "full_frame_comparisons", s.full_compares);
                add(cs, "huge_frame_splits", s.huge_splits);
                add(cs, "sim_steps", s.steps);
                add(cs, "persistent_writes", s.persist_writes);
                add(cs, "fault_crash_points", s.crash_points);
                add(cs, "crash_with_call_in_flight", s.crash_inflight);
                add(cs, "crash_inside_huge_split", s.crash_in_split);
                add(cs, "exhaust_phases", s.exhausts);
                add(cs, "fault_restart_in_place", s.reinits);
                add(cs, "fault_warm_handoff", s.handoffs);
                out.hash = r.hash;
                out.nontrivial = s.state_changing > 0 || s.badargs > 0 || s.changes_ok > 0;
                out.state_hashes = r.state_hashes;
                out.violations = r.violations;
                out.foreign = r.foreign;
                let hist: Vec<J> = r
                    .history
                    .iter()
                    .take(12)
                    .map(|(c, o)| J::obj().set("call", c.to_json()).set("result", o.to_json()))
                    .collect();
                out.sample = J::obj()
                    .set("family", c.profile.clone())
                    .set("config", c.cfg.to_json())
                    .set("calls", r.history.len())
                    .set("first_calls", J::Arr(hist));
            }
            Case::Conc(c) => {
                let runner = ConcRunner {
                    arenas: &ctx.arenas,
                    side: ctx.side.clone(),
                    props,
                };
                let mut r = runner.run(c);
                let mut sweep_points = 0u64;
                if c.solo_sweep
                    && props.has(21)
                    && r.violations.is_empty()
                    && r.stats.aborted == 0
                    && r.schedule.len() <= 400
                {
                    // systematic solo windows: the same interleaving, frozen at every step for
                    // every thread (fault enumeration over the solo point, C21)
                    let mut base = c.clone();
                    base.schedule = r.schedule.clone();
                    base.strategy = Strategy::Replay;
                    base.casfail_den = 0;
                    base.casfail_at = Some(r.casfail_log.clone());
                    'sweep: for step in 0..r.stats.steps {
                        for t in 0..c.programs.len() {
                            let mut c2 = base.clone();
                            c2.solo = vec![(step, t)];
                            let r2 = runner.run(&c2);
                            sweep_points += 1;
                            if r2.violations.iter().any(|v| v.prop == "C21") {
                                *c = c2;
                                r = r2;
                                break 'sweep;
                            }
                        }
                    }
                }
                let mut pct_runs = 0u64;
                let mut pct_runs2 = 0u64;
                let nthreads = c.programs.len();
                let total_ops: usize = c.programs.iter().map(Vec::len).sum();
                // depth-2 sweep: two threads with at most four operations in all; every such
                // case of the thorough tier, one in three of the quick tier
                let deep = nthreads == 2 && total_ops <= 4 && (THOROUGH.load(std::sync::atomic::Ordering::Relaxed) || c.sched_seed % 3 == 0);
                if c.pct_sweep && r.violations.is_empty() && r.stats.aborted == 0 && nthreads <= 3 {
                    // systematic depth-1 PCT: every priority order, the running thread demoted
                    // below all others at every step (no spurious CAS failures, no solo windows)
                    let mut base = c.clone();
                    base.schedule = Vec::new();
                    base.casfail_den = 0;
                    base.casfail_at = Some(Vec::new());
                    base.solo = Vec::new();
                    base.solo_sweep = false;
                    base.tail = None;
                    let orders: &[&[u32]] = match nthreads {
                        1 => &[&[1]],
                        2 => &[&[2, 1], &[1, 2]],
                        _ => &[&[3, 2, 1], &[3, 1, 2], &[2, 3, 1], &[1, 3, 2], &[2, 1, 3], &[1, 2, 3]],
                    };
                    'pct: for prio in orders {
                        base.prio = prio.iter().map(|p| 1000 + p).collect();
                        // without a change point: the threads one after the other; its length
                        // bounds the useful change points
                        base.strategy = Strategy::Pct { change: Vec::new() };
                        let r0 = runner.run(&base);
                        pct_runs += 1;
                        let len = r0.stats.steps;
                        if !r0.violations.is_empty() {
                            *c = base.clone();
                            r = r0;
                            break 'pct;
                        }
                        for step in 1..=len {
                            let mut c2 = base.clone();
                            c2.strategy = Strategy::Pct { change: vec![step] };
                            let r2 = runner.run(&c2);
                            pct_runs += 1;
                            if std::env::var_os("LLSIM_PCT_DEBUG").is_some() {
                                eprintln!("pct prio {prio:?} change {step}: schedule {:?} history {:?}", r2.schedule, r2.history.iter().map(|h| (h.tid, h.invoke, h.ret, format!("{:?}", h.outcome))).collect::<Vec<_>>());
                            }
                            if !r2.violations.is_empty() {
                                *c = c2;
                                r = r2;
                                break 'pct;
                            }
                            // depth 2 for the smallest cases: a second demotion at every later
                            // step of the run with the first one (bounded per case)
                            if deep && pct_runs < 4000 {
                                for step2 in step + 1..=r2.stats.steps {
                                    let mut c3 = base.clone();
                                    c3.strategy = Strategy::Pct { change: vec![step, step2] };
                                    let r3 = runner.run(&c3);
                                    pct_runs += 1;
                                    pct_runs2 += 1;
                                    if !r3.violations.is_empty() {
                                        *c = c3;
                                        r = r3;
                                        break 'pct;
                                    }
                                }
                            }
                        }
                    }
                }
                let s = &r.stats;
                let cs = &mut out.counters;
                add(cs, "calls", s.calls);
                add(cs, "gets_ok", s.gets_ok);
                add(cs, "gets_failed", s.gets_err);
                add(cs, "puts_ok", s.puts_ok);
                add(cs, "sim_steps", s.steps);
                add(cs, "fault_pct_sweep_runs", pct_runs);
                add(cs, "fault_pct_sweep_depth2_runs", pct_runs2);
                add(cs, "cross_thread_conflicts", s.conflicts);
                add(cs, "persistent_writes", s.persist_writes);
                add(cs, "fault_crash_points", s.crash_points);
                add(cs, "crash_with_call_in_flight", s.crash_inflight);
                add(cs, "crash_inside_huge_split", s.crash_in_split);
                add(cs, "offline_ok", s.offline_ok);
                add(cs, "online_ok", s.online_ok);
                add(cs, "final_probes", s.final_probes);
                add(cs, "runs_aborted", s.aborted);
                add(cs, "fault_solo_sweep_points", sweep_points);
                for (k, v) in r.probes.fields() {
                    if k == "solo_max_steps_seen" {
                        maxc(cs, k, v);
                    } else {
                        add(cs, k, v);
                    }
                }
                match &c.strategy {
                    Strategy::Uniform => add(cs, "strategy_uniform", 1),
                    Strategy::Pct { .. } => add(cs, "strategy_pct", 1),
                    Strategy::Burst { .. } => add(cs, "strategy_burst", 1),
                    Strategy::AfterWrite { .. } => add(cs, "strategy_after_write", 1),
                    Strategy::Stall { .. } => add(cs, "strategy_stall", 1),
                    Strategy::Replay => add(cs, "strategy_replay", 1),
                }
                out.hash = r.hash;
                out.nontrivial = r.nontrivial;
                out.state_hashes = r.state_hashes;
                out.violations = r.violations;
                out.foreign = r.foreign;
                // remember what the scheduler and the fault injector did
                c.schedule = r.schedule;
                c.casfail_at = Some(r.casfail_log);
                let hist: Vec<J> = r
                    .history
                    .iter()
                    .take(16)
                    .map(|h| {
                        J::obj()
                            .set("thread", h.tid)
                            .set("invoke_step", h.invoke)
                            .set("return_step", h.ret)
                            .set("call", h.call.to_json())
                            .set("result", h.outcome.as_ref().map(|o| o.to_json()))
                    })
                    .collect();
                out.sample = J::obj()
                    .set("family", c.kind.clone())
                    .set("config", c.cfg.to_json())
                    .set("threads", c.programs.len())
                    .set("schedule_rle", crate::conc::rle(&c.schedule))
                    .set("history", J::Arr(hist));
            }
            Case::Special(c) => {
                out = c.run(ctx, props);
            }
        }
        out
    }

    /// Make the case self-contained for replay: explicit schedule and fault list
    pub fn freeze(&mut self) {
        if let Case::Conc(c) = self {
            c.strategy = Strategy::Replay;
            c.casfail_den = 0;
            if c.casfail_at.is_none() {
                c.casfail_at = Some(Vec::new());
            }
        }
    }
}

/// Does `case` still show a violation with signature `sig` of `prop`?
fn still_fails(case: &mut Case, ctx: &Ctx, props: Props, prop: &str, sig: &str) -> bool {
    let out = case.run(ctx, props, None);
    out.violations
        .iter()
        .any(|v| v.prop == prop && v.sig == sig)
}

/// Shrink the case while the same violation signature persists. Every candidate is a full
/// deterministic re-execution.
pub fn minimise(
    case: &Case,
    ctx: &Ctx,
    props: Props,
    prop: &str,
    sig: &str,
    budget: usize,
) -> (Case, usize) {
    let mut best = case.clone();
    let mut tries = 0usize;
    let mut attempt = |cand: Case, best: &mut Case, tries: &mut usize| -> bool {
        if *tries >= budget {
            return false;
        }
        *tries += 1;
        let mut c = cand;
        if still_fails(&mut c, ctx, props, prop, sig) {
            c.freeze();
            *best = c;
            true
        } else {
            false
        }
    };
    match case {
        Case::Seq(_) => {
            // ddmin over the step list
            let mut chunk = match &best {
                Case::Seq(c) => c.steps.len().div_ceil(2).max(1),
                _ => 1,
            };
            loop {
                let mut progress = false;
                let mut i = 0;
                loop {
                    let Case::Seq(cur) = &best else { break };
                    if i >= cur.steps.len() || tries >= budget {
                        break;
                    }
                    let mut cand = cur.clone();
                    let end = (i + chunk).min(cand.steps.len());
                    cand.steps.drain(i..end);
                    if attempt(Case::Seq(cand), &mut best, &mut tries) {
                        progress = true;
                    } else {
                        i += chunk;
                    }
                }
                if chunk == 1 && !progress {
                    break;
                }
                if !progress || chunk > 1 {
                    chunk = (chunk / 2).max(1);
                }
                if tries >= budget {
                    break;
                }
            }
            // simpler configuration
            if let Case::Seq(cur) = &best {
                let mut cand = cur.clone();
                cand.lower_fill = 0;
                attempt(Case::Seq(cand), &mut best, &mut tries);
            }
            for t in 1..=3 {
                if let Case::Seq(cur) = &best
                    && cur.cfg.frames > t * crate::model::TREE_FRAMES
                {
                    let mut cand = cur.clone();
                    cand.cfg.frames = t * crate::model::TREE_FRAMES;
                    if attempt(Case::Seq(cand), &mut best, &mut tries) {
                        break;
                    }
                }
            }
        }
        Case::Conc(_) => {
            // 0. pin schedule and faults
            {
                let mut c = best.clone();
                let out = c.run(ctx, props, None);
                if out
                    .violations
                    .iter()
                    .any(|v| v.prop == prop && v.sig == sig)
                {
                    c.freeze();
                    best = c;
                }
            }
            // 1. drop whole threads (keep the thread count: the schedule names thread ids)
            let n = if let Case::Conc(c) = &best {
                c.programs.len()
            } else {
                0
            };
            for t in 0..n {
                if let Case::Conc(cur) = &best
                    && !cur.programs[t].is_empty()
                {
                    let mut cand = cur.clone();
                    cand.programs[t].clear();
                    attempt(Case::Conc(cand), &mut best, &mut tries);
                }
            }
            // 2. drop operations, setup calls, deals, faults
            let mut progress = true;
            while progress && tries < budget {
                progress = false;
                for t in 0..n {
                    let mut i = 0;
                    loop {
                        let Case::Conc(cur) = &best else { break };
                        if i >= cur.programs[t].len() {
                            break;
                        }
                        let mut cand = cur.clone();
                        cand.programs[t].remove(i);
                        if attempt(Case::Conc(cand), &mut best, &mut tries) {
                            progress = true;
                        } else {
                            i += 1;
                        }
                    }
                }
                let mut i = 0;
                loop {
                    let Case::Conc(cur) = &best else { break };
                    if i >= cur.setup.len() {
                        break;
                    }
                    let mut cand = cur.clone();
                    cand.setup.remove(i);
                    if attempt(Case::Conc(cand), &mut best, &mut tries) {
                        progress = true;
                    } else {
                        i += 1;
                    }
                }
                let mut i = 0;
                loop {
                    let Case::Conc(cur) = &best else { break };
                    if i >= cur.deals.len() {
                        break;
                    }
                    let mut cand = cur.clone();
                    cand.deals.remove(i);
                    if attempt(Case::Conc(cand), &mut best, &mut tries) {
                        progress = true;
                    } else {
                        i += 1;
                    }
                }
                let mut i = 0;
                loop {
                    let Case::Conc(cur) = &best else { break };
                    let Some(list) = &cur.casfail_at else { break };
                    if i >= list.len() {
                        break;
                    }
                    let mut cand = cur.clone();
                    cand.casfail_at.as_mut().unwrap().remove(i);
                    if attempt(Case::Conc(cand), &mut best, &mut tries) {
                        progress = true;
                    } else {
                        i += 1;
                    }
                }
                if let Case::Conc(cur) = &best
                    && !cur.solo.is_empty()
                    && prop != "C21"
                {
                    let mut cand = cur.clone();
                    cand.solo.clear();
                    if attempt(Case::Conc(cand), &mut best, &mut tries) {
                        progress = true;
                    }
                }
            }
            // 3. fewer preemptions: let the previous thread keep running
            let mut i = 1;
            loop {
                let Case::Conc(cur) = &best else { break };
                if i >= cur.schedule.len() || tries >= budget {
                    break;
                }
                if cur.schedule[i] != cur.schedule[i - 1] {
                    let mut cand = cur.clone();
                    // extend the previous run over the next run of the other thread
                    let other = cand.schedule[i];
                    let prev = cand.schedule[i - 1];
                    let mut j = i;
                    while j < cand.schedule.len() && cand.schedule[j] == other {
                        j += 1;
                    }
                    // swap: [prev.. | other x k | prev x m] -> try moving the `other` run after the following prev run
                    let mut k = j;
                    while k < cand.schedule.len() && cand.schedule[k] == prev {
                        k += 1;
                    }
                    if k > j {
                        let run_other = j - i;
                        let run_prev = k - j;
                        for x in 0..run_prev {
                            cand.schedule[i + x] = prev;
                        }
                        for x in 0..run_other {
                            cand.schedule[i + run_prev + x] = other;
                        }
                        if attempt(Case::Conc(cand), &mut best, &mut tries) {
                            continue;
                        }
                    }
                }
                i += 1;
            }
            // 4. simpler configuration
            if let Case::Conc(cur) = &best {
                let mut cand = cur.clone();
                cand.lower_fill = 0;
                cand.final_probes.clear();
                attempt(Case::Conc(cand), &mut best, &mut tries);
            }
        }
        Case::Special(_) => {}
    }
    (best, tries)
}
