//! Memory-checker tier of C18: the same seeded scenarios, executed in-process under an external
//! memory oracle (AddressSanitizer build with exact-size heap buffers, or Miri).
//!
//! `llsim mem <family> <runs> <seed> [light]` runs the cases like a worker would (token scheduler
//! for the concurrent families) and prints one line; the checker underneath aborts the process on
//! an out-of-bounds access or undefined behaviour.
//! `llsim mem-threads <runs> <seed>` runs free-running threads (no scheduler, hooks not installed)
//! on one allocator, so that Miri's data race detector sees real concurrency.

use llfree::{Alloc, Class, FrameId, Init, LLFree, MetaData, Request};

use crate::case::{Case, Ctx};
use crate::driver::run_seed;
use crate::exec::{ClassKind, Config};
use crate::model::{HUGE_FRAMES, TREE_FRAMES};
use crate::oracle::Props;
use crate::rng::Rng;

pub fn run(args: &[String]) -> i32 {
    let family = &args[0];
    let runs: u64 = args[1].parse().unwrap();
    let seed: u64 = args[2].parse().unwrap();
    let props = Props::of(&[18]);
    let ctx = Ctx::new();
    let mut calls = 0;
    for i in 0..runs {
        let rs = run_seed(seed, family, i);
        let (mut c, g) = Case::generate(family, rs, i, props);
        if cfg!(miri) {
            // keep the interpreted runs small
            match &mut c {
                Case::Seq(s) => {
                    s.cfg.frames = s.cfg.frames.min(TREE_FRAMES + HUGE_FRAMES + 7);
                }
                Case::Conc(s) => {
                    s.cfg.frames = s.cfg.frames.min(TREE_FRAMES);
                }
                Case::Special(_) => {}
            }
        }
        let g = g.map(|(r, n)| (r, if cfg!(miri) { n.min(25) } else { n }));
        let out = c.run(&ctx, props, g);
        calls += out.counters.get("calls").copied().unwrap_or(0);
    }
    println!("mem {family}: {runs} runs, {calls} calls completed without a memory error");
    0
}

/// Free-running threads on a shared allocator
pub fn threads(args: &[String]) -> i32 {
    let runs: u64 = args[0].parse().unwrap();
    let seed: u64 = args[1].parse().unwrap();
    // "safe": leave out the orders 3..=5, whose frees go through the narrow (1/2/4 byte) atomics
    // of Bitfield::toggle_int (known finding: mixed-size atomic accesses)
    let safe = args.get(2).is_some_and(|s| s == "safe");
    let orders: &[usize] = if safe { &[0, 0, 1, 2, 6, 7, 9] } else { &[0, 0, 3, 4, 6, 7, 9] };
    let mut total = 0u64;
    for i in 0..runs {
        let mut rng = Rng::new(run_seed(seed, "MT", i));
        let kind = *rng.pick(&[ClassKind::Simple, ClassKind::Movable, ClassKind::Zeroed]);
        let cfg = Config {
            frames: TREE_FRAMES + if rng.chance(1, 2) { HUGE_FRAMES } else { 0 },
            alloc_all: rng.chance(1, 3),
            kind,
            slots: (0..kind.classes()).map(|_| rng.range(1, 2)).collect(),
        };
        let classing = cfg.classing();
        let ms = LLFree::metadata_size(&classing, cfg.frames);
        let (lp, l) = crate::buf::heap_raw(ms.local, 0);
        let (tp, t) = crate::buf::heap_raw(ms.trees, 0);
        let (pp, p) = crate::buf::heap_raw(ms.lower, 0);
        let alloc = LLFree::new(cfg.frames, if cfg.alloc_all { Init::AllocAll } else { Init::FreeAll }, &classing, MetaData { local: l, trees: t, lower: p })
            .expect("init");
        let n = 2;
        let ops = if cfg!(miri) { 6 } else { 200 };
        let seeds: Vec<u64> = (0..n).map(|_| rng.next()).collect();
        let alloc_all = cfg.alloc_all;
        let frames = cfg.frames;
        let classes = cfg.slots.clone();
        let done: u64 = std::thread::scope(|s| {
            let hs: Vec<_> = (0..n)
                .map(|t| {
                    let alloc = &alloc;
                    let classes = classes.clone();
                    let seed = seeds[t];
                    s.spawn(move || {
                        let mut rng = Rng::new(seed);
                        let mut held: Vec<(usize, usize)> = Vec::new();
                        let mut done = 0u64;
                        if alloc_all {
                            // each thread owns parts of the same huge frames
                            for h in 0..frames / HUGE_FRAMES {
                                held.push((h * HUGE_FRAMES + 64 * t + rng.below(64), 0));
                            }
                        }
                        for _ in 0..ops {
                            let class = rng.below(classes.len()) as u8;
                            let slot = if rng.chance(1, 4) { None } else { Some(rng.below(classes[class as usize])) };
                            if held.is_empty() || rng.chance(1, 2) {
                                let order = *rng.pick(orders);
                                if let Ok((f, _)) = alloc.get(None, Request::new(order, Class(class), slot)) {
                                    held.push((f.0, order));
                                }
                            } else if rng.chance(1, 10) {
                                alloc.drain();
                            } else {
                                let (f, o) = held.swap_remove(rng.below(held.len()));
                                // an unsplit huge frame freed in parts by two threads may hit the
                                // known C03 finding (panic): tolerate it here, this tier looks for UB
                                let r = std::panic::catch_unwind(std::panic::AssertUnwindSafe(|| alloc.put(FrameId(f), Request::new(o, Class(class), slot))));
                                if r.is_err() {
                                    break;
                                }
                            }
                            done += 1;
                        }
                        done
                    })
                })
                .collect();
            hs.into_iter().map(|h| h.join().unwrap_or(0)).sum()
        });
        total += done;
        let _ = alloc.stats();
        drop(alloc);
        crate::buf::heap_free_raw(lp.0, lp.1);
        crate::buf::heap_free_raw(tp.0, tp.1);
        crate::buf::heap_free_raw(pp.0, pp.1);
    }
    println!("mem-threads: {runs} runs, {total} calls completed without a memory error");
    0
}
