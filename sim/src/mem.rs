//! Memory-checker tier of C18: the same seeded scenarios, executed in-process under an external
//! memory oracle (AddressSanitizer build with exact-size heap buffers, or Miri).
//!
//! `llsim mem <family> <runs> <seed> [light]` runs the cases like a worker would (token scheduler
//! for the concurrent families) and prints one line; the checker underneath aborts the process on
//! an out-of-bounds access or undefined behaviour.
//! `llsim mem-threads <runs> <seed>` runs free-running threads (no scheduler, hooks not installed)
//! on one allocator, so that Miri's data race detector sees real concurrency.

use llfree::{Alloc, Class, FrameId, Init, LLFree, MetaData, Request};

use crate::case::{Case, Ctx};
use crate::driver::run_seed;
use crate::exec::{ClassKind, Config};
use crate::model::{HUGE_FRAMES, TREE_FRAMES};
use crate::oracle::Props;
use crate::rng::Rng;

pub fn run(args: &[String]) -> i32 {
    let family = &args[0];
    let runs: u64 = args[1].parse().unwrap();
    let seed: u64 = args[2].parse().unwrap();
    let props = Props::of(&[18]);
    let ctx = Ctx::new();
    let mut calls = 0;
    for i in 0..runs {
        let rs = run_seed(seed, family, i);
        let (mut c, g) = Case::generate(family, rs, i, props);
        if cfg!(miri) {
            // keep the interpreted runs small
            match &mut c {
                Case::Seq(s) => {
                    s.cfg.frames = s.cfg.frames.min(TREE_FRAMES + HUGE_FRAMES + 7);
                }
                Case::Conc(s) => {
                    s.cfg.frames = s.cfg.frames.min(TREE_FRAMES);
                }
                Case::Special(_) => {}
            }
        }
        let g = g.map(|(r, n)| (r, if cfg!(miri) { n.min(25) } else { n }));
        let out = c.run(&ctx, props, g);
        calls += out.counters.get("calls").copied().unwrap_or(0);
    }
    println!("mem {family}: {runs} runs, {calls} calls completed without a memory error");
    0
}

/// Corner configurations named by C18: empty metadata buffers (zero frames), and the
/// `metadata()` round trip (buffers handed back by one instance, reused by the next).
pub fn corners(_args: &[String]) -> i32 {
    use crate::buf::{heap_free_raw, heap_raw};
    // --- zero frames: all three buffers are empty ---
    for kind in [ClassKind::Simple, ClassKind::Movable] {
        let cfg = Config {
            frames: 0,
            alloc_all: false,
            kind,
            slots: vec![0; kind.classes()],
        };
        let classing = cfg.classing();
        let ms = LLFree::metadata_size(&classing, 0);
        let ((lp, ln), l) = heap_raw(ms.local, 0);
        let ((tp, tn), t) = heap_raw(ms.trees, 0);
        let ((pp, pn), p) = heap_raw(ms.lower, 0);
        for init in [Init::FreeAll, Init::AllocAll] {
            let (l2, t2, p2) = unsafe {
                (
                    std::slice::from_raw_parts_mut(l.as_mut_ptr(), l.len()),
                    std::slice::from_raw_parts_mut(t.as_mut_ptr(), t.len()),
                    std::slice::from_raw_parts_mut(p.as_mut_ptr(), p.len()),
                )
            };
            if let Ok(a) = LLFree::new(
                0,
                init,
                &classing,
                MetaData {
                    local: l2,
                    trees: t2,
                    lower: p2,
                },
            ) {
                let _ = a.get(None, Request::new(0, Class(0), None));
                let _ = a.put(FrameId(0), Request::new(0, Class(0), None));
                a.drain();
                let _ = a.stats();
                let _ = a.tree_stats();
                a.validate();
            }
        }
        heap_free_raw(lp, ln);
        heap_free_raw(tp, tn);
        heap_free_raw(pp, pn);
    }
    // --- metadata() round trip ---
    for frames in [HUGE_FRAMES + 3, TREE_FRAMES, TREE_FRAMES + HUGE_FRAMES + 70] {
        let cfg = Config {
            frames,
            alloc_all: false,
            kind: ClassKind::Simple,
            slots: vec![2, 1],
        };
        let classing = cfg.classing();
        let ms = LLFree::metadata_size(&classing, frames);
        let ((lp, ln), l) = heap_raw(ms.local, 0);
        let ((tp, tn), t) = heap_raw(ms.trees, 0);
        let ((pp, pn), p) = heap_raw(ms.lower, 0);
        let mut a = LLFree::new(
            frames,
            Init::FreeAll,
            &classing,
            MetaData {
                local: l,
                trees: t,
                lower: p,
            },
        )
        .expect("init");
        let (f, _) = a
            .get(None, Request::new(0, Class(0), Some(1)))
            .expect("get");
        let (g, _) = a.get(None, Request::new(3, Class(0), None)).expect("get");
        // hand the buffers over to a second instance (assume-initialized), as the trait documents
        // (the old instance must not be touched any more, not even moved: its references are dead)
        let meta = unsafe { a.metadata() };
        let b = LLFree::new(frames, Init::None, &classing, meta).expect("reinit");
        b.put(f, Request::new(0, Class(0), Some(1))).expect("put");
        b.put(g, Request::new(3, Class(0), None)).expect("put");
        b.drain();
        b.validate();
        assert_eq!(b.stats().free_frames, frames);
        drop(b);
        heap_free_raw(lp, ln);
        heap_free_raw(tp, tn);
        heap_free_raw(pp, pn);
    }
    // --- persistent wrapper over a heap zone (create, use, cold restart) ---
    {
        use llfree::frame::Frame;
        use llfree::wrapper::NvmAlloc;
        let total = TREE_FRAMES + 40;
        let align = Frame::SIZE << crate::model::TREE_ORDER;
        let layout = std::alloc::Layout::from_size_align(total * Frame::SIZE, align).unwrap();
        let base = unsafe { std::alloc::alloc_zeroed(layout) };
        let cfg = Config {
            frames: total,
            alloc_all: false,
            kind: ClassKind::Simple,
            slots: vec![1, 1],
        };
        let classing = cfg.classing();
        let ms = LLFree::metadata_size(&classing, total);
        let mut held = Vec::new();
        for recover in [false, true] {
            let zone: &mut [Frame] = unsafe { std::slice::from_raw_parts_mut(base.cast(), total) };
            let ((lp, ln), l) = heap_raw(ms.local, 0);
            let ((tp, tn), t) = heap_raw(ms.trees, 0);
            {
                let a =
                    NvmAlloc::<LLFree>::create(zone, recover, &classing, l, t).expect("nvm create");
                if !recover {
                    for order in [0usize, 3, 0] {
                        held.push((
                            a.get(None, Request::new(order, Class(0), Some(0)))
                                .expect("get")
                                .0,
                            order,
                        ));
                    }
                } else {
                    for (f, order) in held.drain(..) {
                        a.put(f, Request::new(order, Class(0), None))
                            .expect("put after recovery");
                    }
                    assert_eq!(a.stats().free_frames, a.frames());
                }
                a.drain();
            }
            heap_free_raw(lp, ln);
            heap_free_raw(tp, tn);
        }
        unsafe { std::alloc::dealloc(base, layout) };
    }
    println!("mem-corners: 9 runs completed without a memory error");
    0
}

/// Free-running threads on a shared allocator
pub fn threads(args: &[String]) -> i32 {
    let runs: u64 = args[0].parse().unwrap();
    let seed: u64 = args[1].parse().unwrap();
    // "safe": leave out the orders 3..=5, whose frees go through the narrow (1/2/4 byte) atomics
    // of Bitfield::toggle_int (known finding: mixed-size atomic accesses)
    let safe = args.get(2).is_some_and(|s| s == "safe");
    let orders: &[usize] = if safe {
        &[0, 0, 1, 2, 6, 7, 9]
    } else {
        &[0, 0, 3, 4, 6, 7, 9]
    };
    let mut total = 0u64;
    for i in 0..runs {
        let mut rng = Rng::new(run_seed(seed, "MT", i));
        let kind = *rng.pick(&[ClassKind::Simple, ClassKind::Movable, ClassKind::Zeroed]);
        let cfg = Config {
            frames: TREE_FRAMES + if rng.chance(1, 2) { HUGE_FRAMES } else { 0 },
            alloc_all: rng.chance(1, 3),
            kind,
            slots: (0..kind.classes()).map(|_| rng.range(1, 2)).collect(),
        };
        let classing = cfg.classing();
        let ms = LLFree::metadata_size(&classing, cfg.frames);
        let (lp, l) = crate::buf::heap_raw(ms.local, 0);
        let (tp, t) = crate::buf::heap_raw(ms.trees, 0);
        let (pp, p) = crate::buf::heap_raw(ms.lower, 0);
        let alloc = LLFree::new(
            cfg.frames,
            if cfg.alloc_all {
                Init::AllocAll
            } else {
                Init::FreeAll
            },
            &classing,
            MetaData {
                local: l,
                trees: t,
                lower: p,
            },
        )
        .expect("init");
        let n = 2;
        let ops = if cfg!(miri) { 6 } else { 200 };
        let seeds: Vec<u64> = (0..n).map(|_| rng.next()).collect();
        let alloc_all = cfg.alloc_all;
        let frames = cfg.frames;
        let classes = cfg.slots.clone();
        let done: u64 = std::thread::scope(|s| {
            let hs: Vec<_> = (0..n)
                .map(|t| {
                    let alloc = &alloc;
                    let classes = classes.clone();
                    let seed = seeds[t];
                    s.spawn(move || {
                        let mut rng = Rng::new(seed);
                        let mut held: Vec<(usize, usize)> = Vec::new();
                        let mut done = 0u64;
                        if alloc_all {
                            // each thread owns parts of the same huge frames
                            for h in 0..frames / HUGE_FRAMES {
                                held.push((h * HUGE_FRAMES + 64 * t + rng.below(64), 0));
                            }
                        }
                        for _ in 0..ops {
                            let class = rng.below(classes.len()) as u8;
                            let slot = if rng.chance(1, 4) {
                                None
                            } else {
                                Some(rng.below(classes[class as usize]))
                            };
                            if held.is_empty() || rng.chance(1, 2) {
                                let order = *rng.pick(orders);
                                if let Ok((f, _)) =
                                    alloc.get(None, Request::new(order, Class(class), slot))
                                {
                                    held.push((f.0, order));
                                }
                            } else if rng.chance(1, 10) {
                                alloc.drain();
                            } else {
                                let (f, o) = held.swap_remove(rng.below(held.len()));
                                // an unsplit huge frame freed in parts by two threads may hit the
                                // known C03 finding (panic): tolerate it here, this tier looks for UB
                                let r =
                                    std::panic::catch_unwind(std::panic::AssertUnwindSafe(|| {
                                        alloc.put(FrameId(f), Request::new(o, Class(class), slot))
                                    }));
                                if r.is_err() {
                                    break;
                                }
                            }
                            done += 1;
                        }
                        done
                    })
                })
                .collect();
            hs.into_iter().map(|h| h.join().unwrap_or(0)).sum()
        });
        total += done;
        let _ = alloc.stats();
        drop(alloc);
        crate::buf::heap_free_raw(lp.0, lp.1);
        crate::buf::heap_free_raw(tp.0, tp.1);
        crate::buf::heap_free_raw(pp.0, pp.1);
    }
    println!("mem-threads: {runs} runs, {total} calls completed without a memory error");
    0
}
