//! Configurations, concrete calls and their execution against the real allocator.

use std::cell::RefCell;
use std::panic::{AssertUnwindSafe, catch_unwind};

use llfree::{
    Alloc, Class, Classing, Error, FrameId, Init, LLFree, MetaData, Policy, PolicyFn, Request,
    TreeChange, TreeId, TreeMatch, TreeOperation,
};

use crate::json::J;
use crate::model::{TREE_FRAMES, TREE_ORDER};
use crate::world::SimAbort;

// ------------------------------------------------------------------------------------------
// Configuration

#[derive(Clone, Copy, Debug, PartialEq, Eq)]
pub enum ClassKind {
    Simple,
    Movable,
    /// the repository's 3-class policy with default class 1 (eval/tests/integration.rs)
    Zeroed,
    /// 3 classes, movable-like but the pairs (0,2) and (2,0) are unusable
    Custom,
}
impl ClassKind {
    pub fn name(self) -> &'static str {
        match self {
            Self::Simple => "simple",
            Self::Movable => "movable",
            Self::Zeroed => "zeroed",
            Self::Custom => "custom",
        }
    }
    pub fn from_name(s: &str) -> Self {
        match s {
            "simple" => Self::Simple,
            "movable" => Self::Movable,
            "zeroed" => Self::Zeroed,
            _ => Self::Custom,
        }
    }
    pub fn classes(self) -> usize {
        match self {
            Self::Simple => 2,
            _ => 3,
        }
    }
    pub fn default(self) -> u8 {
        match self {
            Self::Simple => 1,
            Self::Movable => 2,
            Self::Zeroed => 1,
            Self::Custom => 2,
        }
    }
    pub fn policy(self) -> PolicyFn {
        match self {
            Self::Simple => Classing::simple(1).0.policy,
            Self::Movable => Classing::movable(1).0.policy,
            Self::Zeroed => zeroed_policy,
            Self::Custom => custom_policy,
        }
    }
}

/// Verbatim from eval/tests/integration.rs (zeroed_steals_from_huge)
fn zeroed_policy(requested: Class, target: Class, free: usize) -> Policy {
    if requested.0 > target.0 {
        return Policy::Steal;
    } else if requested.0 < target.0 {
        return Policy::Demote;
    }
    match free {
        f if f >= TREE_FRAMES / 2 => Policy::Match(1),
        f if f >= TREE_FRAMES / 64 => Policy::Match(u8::MAX),
        _ => Policy::Match(0),
    }
}

/// A policy that declares some class pairs unusable, independent of `free`
fn custom_policy(requested: Class, target: Class, free: usize) -> Policy {
    if (requested.0 == 0 && target.0 == 2) || (requested.0 == 2 && target.0 == 0) {
        return Policy::Invalid;
    }
    if requested.0 > target.0 {
        return Policy::Steal;
    } else if requested.0 < target.0 {
        return Policy::Demote;
    }
    match free {
        f if f >= TREE_FRAMES / 2 => Policy::Match(1),
        f if f >= TREE_FRAMES / 64 => Policy::Match(u8::MAX),
        _ => Policy::Match(2),
    }
}

#[derive(Clone, Debug, PartialEq, Eq)]
pub struct Config {
    pub frames: usize,
    /// true: AllocAll, false: FreeAll
    pub alloc_all: bool,
    pub kind: ClassKind,
    /// slots per class
    pub slots: Vec<usize>,
}

impl Config {
    pub fn classing(&self) -> Classing {
        let classes: Vec<(Class, usize)> = self
            .slots
            .iter()
            .enumerate()
            .map(|(i, &n)| (Class(i as u8), n))
            .collect();
        Classing::new(&classes, Class(self.kind.default()), self.kind.policy())
    }
    pub fn init(&self) -> Init {
        if self.alloc_all {
            Init::AllocAll
        } else {
            Init::FreeAll
        }
    }
    pub fn trees(&self) -> usize {
        self.frames.div_ceil(TREE_FRAMES)
    }
    pub fn class_ok(&self, class: u8) -> bool {
        (class as usize) < self.slots.len()
    }
    pub fn to_json(&self) -> J {
        J::obj()
            .set("frames", self.frames)
            .set("alloc_all", self.alloc_all)
            .set("classing", self.kind.name())
            .set("slots", self.slots.clone())
    }
    pub fn from_json(j: &J) -> Self {
        Self {
            frames: j.gu("frames") as usize,
            alloc_all: j.get("alloc_all").and_then(J::b).unwrap_or(false),
            kind: ClassKind::from_name(j.gs("classing")),
            slots: j
                .garr("slots")
                .iter()
                .map(|x| x.u().unwrap() as usize)
                .collect(),
        }
    }
}

// ------------------------------------------------------------------------------------------
// Calls

#[derive(Clone, Debug, PartialEq, Eq)]
pub enum Call {
    Get {
        target: Option<usize>,
        order: usize,
        class: u8,
        slot: Option<usize>,
    },
    Put {
        frame: usize,
        order: usize,
        class: u8,
        slot: Option<usize>,
    },
    Drain,
    Change {
        id: Option<usize>,
        mclass: Option<u8>,
        mfree: usize,
        class: Option<u8>,
        /// 0 none, 1 online, 2 offline
        op: u8,
    },
}

#[derive(Clone, Copy, Debug, PartialEq, Eq)]
pub enum ErrKind {
    Memory,
    Argument,
    Initialization,
}
impl From<Error> for ErrKind {
    fn from(e: Error) -> Self {
        match e {
            Error::Memory => Self::Memory,
            Error::Argument => Self::Argument,
            Error::Initialization => Self::Initialization,
        }
    }
}

#[derive(Clone, Debug, PartialEq, Eq)]
pub enum Outcome {
    GetOk { frame: usize, class: u8 },
    Ok,
    Err(ErrKind),
    Panic { msg: String, loc: String },
    Aborted,
}
impl Outcome {
    pub fn is_panic(&self) -> bool {
        matches!(self, Outcome::Panic { .. })
    }
    pub fn to_json(&self) -> J {
        match self {
            Outcome::GetOk { frame, class } => J::obj().set("ok", *frame).set("class", *class),
            Outcome::Ok => J::from("ok"),
            Outcome::Err(e) => J::from(format!("err:{e:?}")),
            Outcome::Panic { msg, loc } => {
                J::obj().set("panic", msg.clone()).set("at", loc.clone())
            }
            Outcome::Aborted => J::from("aborted"),
        }
    }
}

fn opt_u(j: Option<&J>) -> Option<usize> {
    j.and_then(J::u).map(|x| x as usize)
}

impl Call {
    pub fn to_json(&self) -> J {
        match self {
            Call::Get {
                target,
                order,
                class,
                slot,
            } => J::obj()
                .set("op", "get")
                .set("target", *target)
                .set("order", *order)
                .set("class", *class)
                .set("slot", *slot),
            Call::Put {
                frame,
                order,
                class,
                slot,
            } => J::obj()
                .set("op", "put")
                .set("frame", *frame)
                .set("order", *order)
                .set("class", *class)
                .set("slot", *slot),
            Call::Drain => J::obj().set("op", "drain"),
            Call::Change {
                id,
                mclass,
                mfree,
                class,
                op,
            } => J::obj()
                .set("op", "change")
                .set("id", *id)
                .set("mclass", *mclass)
                .set("mfree", *mfree)
                .set("class", *class)
                .set(
                    "operation",
                    match op {
                        1 => "online",
                        2 => "offline",
                        _ => "none",
                    },
                ),
        }
    }
    pub fn from_json(j: &J) -> Option<Call> {
        Some(match j.gs("op") {
            "get" => Call::Get {
                target: opt_u(j.get("target")),
                order: j.gu("order") as usize,
                class: j.gu("class") as u8,
                slot: opt_u(j.get("slot")),
            },
            "put" => Call::Put {
                frame: j.gu("frame") as usize,
                order: j.gu("order") as usize,
                class: j.gu("class") as u8,
                slot: opt_u(j.get("slot")),
            },
            "drain" => Call::Drain,
            "change" => Call::Change {
                id: opt_u(j.get("id")),
                mclass: opt_u(j.get("mclass")).map(|x| x as u8),
                mfree: j.gu("mfree") as usize,
                class: opt_u(j.get("class")).map(|x| x as u8),
                op: match j.gs("operation") {
                    "online" => 1,
                    "offline" => 2,
                    _ => 0,
                },
            },
            _ => return None,
        })
    }
    /// Are the arguments valid per the documented checks (C08)?
    pub fn args_valid(&self, cfg: &Config) -> bool {
        match self {
            Call::Get {
                target,
                order,
                class,
                ..
            } => {
                let f = target.unwrap_or(0);
                *order <= TREE_ORDER
                    && f.checked_add(1 << order).is_some_and(|e| e <= cfg.frames)
                    && f % (1 << order) == 0
                    && cfg.class_ok(*class)
            }
            Call::Put {
                frame,
                order,
                class,
                ..
            } => {
                *order <= TREE_ORDER
                    && frame
                        .checked_add(1 << order)
                        .is_some_and(|e| e <= cfg.frames)
                    && frame % (1 << order) == 0
                    && cfg.class_ok(*class)
            }
            _ => true,
        }
    }
}

thread_local! {
    static LAST_PANIC: RefCell<Option<(String, String)>> = const { RefCell::new(None) };
}

/// Install a silent panic hook that remembers message and location per thread.
pub fn install_panic_hook() {
    std::panic::set_hook(Box::new(|info| {
        if info.payload().downcast_ref::<SimAbort>().is_some() {
            return;
        }
        let msg = if let Some(s) = info.payload().downcast_ref::<&str>() {
            s.to_string()
        } else if let Some(s) = info.payload().downcast_ref::<String>() {
            s.clone()
        } else {
            "<non-string panic>".to_string()
        };
        let loc = info
            .location()
            .map(|l| format!("{}:{}", l.file(), l.line()))
            .unwrap_or_default();
        if std::env::var_os("LLSIM_SHOW_PANICS").is_some() {
            eprintln!("panic: {msg} at {loc}");
        }
        LAST_PANIC.with(|p| *p.borrow_mut() = Some((msg, loc)));
    }));
}

/// Run `f`, converting a panic into an [`Outcome`]
pub fn guarded<R>(f: impl FnOnce() -> R) -> Result<R, Outcome> {
    match catch_unwind(AssertUnwindSafe(f)) {
        Ok(r) => Ok(r),
        Err(p) => {
            if p.downcast_ref::<SimAbort>().is_some() {
                Err(Outcome::Aborted)
            } else {
                let (msg, loc) = LAST_PANIC
                    .with(|p| p.borrow_mut().take())
                    .unwrap_or_else(|| ("<unknown>".into(), String::new()));
                Err(Outcome::Panic { msg, loc })
            }
        }
    }
}

/// Normalise a panic into a signature: source file (without line) + message with numbers stripped
pub fn panic_signature(msg: &str, loc: &str) -> String {
    let file = loc.rsplit('/').next().unwrap_or(loc);
    let file = file.split(':').next().unwrap_or(file);
    let mut m = String::new();
    let mut last_hash = false;
    for c in msg.chars() {
        if c.is_ascii_digit() {
            if !last_hash {
                m.push('#');
            }
            last_hash = true;
        } else {
            m.push(if c.is_ascii_alphanumeric() || c == '#' {
                c
            } else {
                '_'
            });
            last_hash = false;
        }
    }
    // cut the *normalised* text, so that numbers of different width do not move the cut
    let m: String = m.chars().take(52).collect();
    format!("panic:{file}:{m}")
}

pub fn request(order: usize, class: u8, slot: Option<usize>) -> Request {
    Request::new(order, Class(class), slot)
}

/// Execute one call on any allocator implementing the trait
pub fn exec<'a, A: Alloc<'a>>(alloc: &A, call: &Call) -> Outcome {
    let r = guarded(|| match call {
        Call::Get {
            target,
            order,
            class,
            slot,
        } => match alloc.get(target.map(FrameId), request(*order, *class, *slot)) {
            Ok((f, c)) => Outcome::GetOk {
                frame: f.0,
                class: c.0,
            },
            Err(e) => Outcome::Err(e.into()),
        },
        Call::Put {
            frame,
            order,
            class,
            slot,
        } => match alloc.put(FrameId(*frame), request(*order, *class, *slot)) {
            Ok(()) => Outcome::Ok,
            Err(e) => Outcome::Err(e.into()),
        },
        Call::Drain => {
            alloc.drain();
            Outcome::Ok
        }
        Call::Change {
            id,
            mclass,
            mfree,
            class,
            op,
        } => {
            let m = TreeMatch {
                id: id.map(TreeId),
                class: mclass.map(Class),
                free: *mfree,
            };
            let c = TreeChange {
                class: class.map(Class),
                operation: match op {
                    1 => Some(TreeOperation::Online),
                    2 => Some(TreeOperation::Offline),
                    _ => None,
                },
            };
            match alloc.change_tree(m, c) {
                Ok(()) => Outcome::Ok,
                Err(e) => Outcome::Err(e.into()),
            }
        }
    });
    match r {
        Ok(o) => o,
        Err(o) => o,
    }
}

/// Metadata buffers of one allocator instance
pub struct Bufs {
    pub local: &'static mut [u8],
    pub trees: &'static mut [u8],
    pub lower: &'static mut [u8],
}

/// Three arenas with guard pages, reusable over runs
pub struct Arenas {
    pub local: crate::buf::Arena,
    pub trees: crate::buf::Arena,
    pub lower: crate::buf::Arena,
}
impl Arenas {
    pub fn new() -> Self {
        Self {
            local: crate::buf::Arena::new(64 * 64),
            trees: crate::buf::Arena::new(4096),
            lower: crate::buf::Arena::new(1 << 19),
        }
    }
    /// Exactly sized buffers. `at_end`: flush against the trailing guard page.
    /// `local`/`trees` are zeroed, `lower` is filled with `lower_fill`.
    ///
    /// # Safety
    /// Only one set of buffers per arena set may be alive.
    pub unsafe fn bufs(&self, cfg: &Config, at_end: bool, lower_fill: u8) -> Bufs {
        let ms = LLFree::metadata_size(&cfg.classing(), cfg.frames);
        unsafe {
            Bufs {
                local: self.local.slice(ms.local, at_end, 0),
                trees: self.trees.slice(ms.trees, at_end, 0),
                lower: self.lower.slice(ms.lower, at_end, lower_fill),
            }
        }
    }
}

/// Create an allocator over the given buffers; panics are converted.
pub fn create(
    cfg: &Config,
    init: Init,
    bufs: Bufs,
) -> Result<llfree::Result<LLFree<'static>>, Outcome> {
    let classing = cfg.classing();
    guarded(move || {
        LLFree::new(
            cfg.frames,
            init,
            &classing,
            MetaData {
                local: bufs.local,
                trees: bufs.trees,
                lower: bufs.lower,
            },
        )
    })
}
