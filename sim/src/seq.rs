//! Sequential harness: one simulated caller, long seeded histories, the reference model
//! as oracle after every call. Serves C02 C04 C05 C08 C09 C10 C11 C13 C14 C15 (and C01's
//! "every sequential history" half).

use std::sync::Arc;

use llfree::{Alloc, LLFree};

use crate::crash::{Crash, Ledger};
use crate::exec::{
    Arenas, Call, ClassKind, Config, ErrKind, Outcome, create, exec, guarded, panic_signature,
};
use crate::json::J;
use crate::model::{Block, HUGE_FRAMES, HUGE_ORDER, Model, PutVerdict, TREE_FRAMES, TREE_ORDER};
use crate::oracle::{
    Props, Violation, check_class_sums, check_views, class_permitted, compare_frames, tree_snapshot,
};
use crate::rng::{Hasher, Rng};
use crate::world::{Shared, ThreadCtx, World, enter, leave, masked};

#[derive(Clone, Debug, PartialEq)]
pub enum Step {
    Call(Call),
    /// free my k-th held block (in frame order), or the `idx`-th aligned part of order `sub.0` of it
    PutHeld {
        k: usize,
        sub: Option<(usize, usize)>,
        class: u8,
        slot: Option<usize>,
    },
    /// free the union of the k-th held block and its buddy
    PutMerge {
        k: usize,
        class: u8,
        slot: Option<usize>,
    },
    /// C10a: drain, then a base-order allocation
    ProbeBase {
        class: u8,
        slot: Option<usize>,
    },
    /// C10b: drain, then a targeted allocation
    ProbeAt {
        frame: usize,
        order: usize,
        class: u8,
        slot: Option<usize>,
    },
    /// base-order allocations until out of memory (judged call by call, state compared at the end)
    Exhaust {
        class: u8,
        slot: Option<usize>,
    },
    /// free every held block of one tree (mode 0: without a slot, 1: through the slot, 2: mixed)
    FreeTree {
        tree: usize,
        mode: u8,
        class: u8,
        slot: Option<usize>,
    },
    /// C07: warm handoff - build a second allocator (assume-initialized) over byte copies of the
    /// three metadata buffers; from now on both are driven in lock-step
    Warm,
    /// restart in place at a quiescent point: `recover` = cold (volatile buffers zeroed,
    /// Init::Recover), otherwise warm (all three buffers as they are, Init::None)
    Reinit {
        recover: bool,
    },
}

fn opt_u(j: Option<&J>) -> Option<usize> {
    j.and_then(J::u).map(|x| x as usize)
}

impl Step {
    pub fn to_json(&self) -> J {
        match self {
            Step::Call(c) => c.to_json(),
            Step::PutHeld {
                k,
                sub,
                class,
                slot,
            } => J::obj()
                .set("op", "put_held")
                .set("k", *k)
                .set("sub_order", sub.map(|s| s.0))
                .set("sub_idx", sub.map(|s| s.1))
                .set("class", *class)
                .set("slot", *slot),
            Step::PutMerge { k, class, slot } => J::obj()
                .set("op", "put_merge")
                .set("k", *k)
                .set("class", *class)
                .set("slot", *slot),
            Step::ProbeBase { class, slot } => J::obj()
                .set("op", "probe_base")
                .set("class", *class)
                .set("slot", *slot),
            Step::ProbeAt {
                frame,
                order,
                class,
                slot,
            } => J::obj()
                .set("op", "probe_at")
                .set("frame", *frame)
                .set("order", *order)
                .set("class", *class)
                .set("slot", *slot),
            Step::Exhaust { class, slot } => J::obj()
                .set("op", "exhaust")
                .set("class", *class)
                .set("slot", *slot),
            Step::FreeTree {
                tree,
                mode,
                class,
                slot,
            } => J::obj()
                .set("op", "free_tree")
                .set("tree", *tree)
                .set("mode", *mode)
                .set("class", *class)
                .set("slot", *slot),
            Step::Warm => J::obj().set("op", "warm_handoff"),
            Step::Reinit { recover } => J::obj().set("op", "reinit").set("recover", *recover),
        }
    }
    pub fn from_json(j: &J) -> Option<Step> {
        Some(match j.gs("op") {
            "put_held" => Step::PutHeld {
                k: j.gu("k") as usize,
                sub: opt_u(j.get("sub_order")).map(|o| (o, j.gu("sub_idx") as usize)),
                class: j.gu("class") as u8,
                slot: opt_u(j.get("slot")),
            },
            "put_merge" => Step::PutMerge {
                k: j.gu("k") as usize,
                class: j.gu("class") as u8,
                slot: opt_u(j.get("slot")),
            },
            "probe_base" => Step::ProbeBase {
                class: j.gu("class") as u8,
                slot: opt_u(j.get("slot")),
            },
            "probe_at" => Step::ProbeAt {
                frame: j.gu("frame") as usize,
                order: j.gu("order") as usize,
                class: j.gu("class") as u8,
                slot: opt_u(j.get("slot")),
            },
            "exhaust" => Step::Exhaust {
                class: j.gu("class") as u8,
                slot: opt_u(j.get("slot")),
            },
            "reinit" => Step::Reinit {
                recover: j.get("recover").and_then(J::b).unwrap_or(false),
            },
            "free_tree" => Step::FreeTree {
                tree: j.gu("tree") as usize,
                mode: j.gu("mode") as u8,
                class: j.gu("class") as u8,
                slot: opt_u(j.get("slot")),
            },
            "warm_handoff" => Step::Warm,
            _ => Step::Call(Call::from_json(j)?),
        })
    }
}

/// Generator weights of one sequential family
#[derive(Clone, Debug)]
pub struct Profile {
    pub name: &'static str,
    pub w_get: usize,
    pub w_get_at: usize,
    pub w_put: usize,
    pub w_put_part: usize,
    pub w_put_merge: usize,
    pub w_put_raw: usize,
    pub w_drain: usize,
    pub w_change: usize,
    pub w_badarg: usize,
    pub w_probe_base: usize,
    pub w_probe_at: usize,
    pub w_exhaust: usize,
    /// re-initialise the allocator in place (Init::Recover / Init::None) at a quiescent point
    pub w_reinit: usize,
    /// perform one warm handoff at a random step (C07)
    pub warm: bool,
    /// change_tree may name any id in 0..2*trees, targeted gets may carry a slot
    pub open: bool,
    /// only base order, class 0, slot 0 (C11)
    pub single: bool,
    /// allow custom policy
    pub custom: bool,
    pub min_steps: usize,
    pub max_steps: usize,
    pub max_trees: usize,
}

impl Profile {
    pub fn q1() -> Self {
        Self {
            name: "Q1",
            w_get: 30,
            w_get_at: 10,
            w_put: 22,
            w_put_part: 8,
            w_put_merge: 3,
            w_put_raw: 6,
            w_drain: 4,
            w_change: 5,
            w_badarg: 0,
            w_probe_base: 0,
            w_probe_at: 0,
            w_exhaust: 0,
            w_reinit: 1,
            warm: false,
            open: false,
            single: false,
            custom: false,
            min_steps: 20,
            max_steps: 120,
            max_trees: 4,
        }
    }
    /// C09: configuration space opened up
    pub fn q1_open() -> Self {
        Self {
            name: "Q1open",
            open: true,
            w_change: 10,
            w_reinit: 3,
            ..Self::q1()
        }
    }
    /// C11: single slot, base order only, no drains
    pub fn q3() -> Self {
        Self {
            name: "Q3",
            w_get: 50,
            w_get_at: 0,
            w_put: 30,
            w_put_part: 0,
            w_put_merge: 0,
            w_put_raw: 0,
            w_drain: 0,
            w_change: 0,
            single: true,
            w_reinit: 1,
            w_exhaust: 10,
            min_steps: 40,
            max_steps: 200,
            ..Self::q1()
        }
    }
    /// C15: offline/online emphasis
    pub fn q5() -> Self {
        Self {
            name: "Q5",
            w_change: 30,
            w_get_at: 15,
            w_put_raw: 2,
            ..Self::q1()
        }
    }
    /// C08: malformed calls mixed in
    pub fn q6() -> Self {
        Self {
            name: "Q6",
            w_badarg: 35,
            ..Self::q1()
        }
    }
    /// C10: drain-then-probe
    pub fn q9() -> Self {
        Self {
            name: "Q9",
            w_probe_base: 10,
            w_probe_at: 14,
            w_put_raw: 2,
            w_exhaust: 1,
            ..Self::q1()
        }
    }
    /// C13: with the custom policy
    pub fn q13() -> Self {
        Self {
            name: "Q13",
            custom: true,
            w_put_raw: 1,
            ..Self::q1()
        }
    }
    /// C05: shorter histories, fewer trees (every write is a crash point)
    pub fn q1_crash() -> Self {
        Self {
            name: "Q1crash",
            min_steps: 8,
            max_steps: 40,
            max_trees: 3,
            w_change: 1,
            ..Self::q1()
        }
    }
    /// C07: Q1 with one warm handoff, after which two allocators run in lock-step
    pub fn q7() -> Self {
        Self {
            name: "Q7",
            warm: true,
            w_put_raw: 3,
            ..Self::q1()
        }
    }
    pub fn by_name(n: &str) -> Self {
        match n {
            "Q7" => Self::q7(),
            "Q1open" => Self::q1_open(),
            "Q3" => Self::q3(),
            "Q5" => Self::q5(),
            "Q6" => Self::q6(),
            "Q9" => Self::q9(),
            "Q13" => Self::q13(),
            "Q1crash" => Self::q1_crash(),
            _ => Self::q1(),
        }
    }
}

/// Boundary-biased frame count for up to `max_trees` trees
pub fn gen_frames(rng: &mut Rng, max_trees: usize, allow_zero: bool) -> usize {
    let max = max_trees * TREE_FRAMES;
    let base = match rng.below(6) {
        0 => rng.range(1, max_trees) * TREE_FRAMES,
        1 => rng.range(1, max / HUGE_FRAMES) * HUGE_FRAMES,
        2 => rng.range(1, max / 64) * 64,
        3 => {
            rng.range(1, max_trees) * TREE_FRAMES
                - rng.range(0, crate::model::TREE_HUGE - 1) * HUGE_FRAMES
        }
        _ => rng.range(1, max),
    };
    let delta = if rng.chance(1, 2) {
        0
    } else {
        rng.range(0, 6) as isize - 3
    };
    let f = (base as isize + delta).clamp(0, max as isize) as usize;
    if f == 0 && !allow_zero { 1 } else { f }
}

pub fn gen_config(rng: &mut Rng, p: &Profile) -> Config {
    if p.single {
        return Config {
            frames: rng.range(2, p.max_trees.max(2)) * TREE_FRAMES
                - if rng.chance(1, 3) {
                    rng.range(0, HUGE_FRAMES)
                } else {
                    0
                },
            // one in three starts from the allocate-all state (memory exhausted from the start,
            // every tree labelled with the default class): frames are then freed one by one
            alloc_all: rng.chance(1, 3),
            kind: ClassKind::Simple,
            slots: vec![1, if rng.chance(1, 2) { 0 } else { 1 }],
        };
    }
    let allow_zero = p.open && rng.chance(1, 40);
    // now and then many trees: the tree search (neighbourhood size, candidate buffer of the
    // best-fit search) behaves differently once there are more trees than its constants
    let many = (65536 / TREE_FRAMES).clamp(p.max_trees, 24);
    let max_trees = if p.max_trees >= 4 && rng.chance(1, 12) {
        rng.range(p.max_trees + 1, many.max(p.max_trees + 1))
    } else {
        p.max_trees
    };
    let frames = if allow_zero {
        0
    } else {
        gen_frames(rng, max_trees, false)
    };
    let kind = match rng.below(if p.custom { 4 } else { 3 }) {
        0 => ClassKind::Simple,
        1 => ClassKind::Movable,
        2 => ClassKind::Zeroed,
        _ => ClassKind::Custom,
    };
    let kind = if p.custom && rng.chance(1, 2) {
        ClassKind::Custom
    } else {
        kind
    };
    let mut slots: Vec<usize> = (0..kind.classes()).map(|_| rng.range(1, 3)).collect();
    // classes without local slots: often in the opened-up space of C09, sometimes everywhere
    // else (C02 names the zero-slot classings), never for the drain probes of C10 (1-3 slots)
    let zero = if p.open {
        rng.chance(1, 3)
    } else {
        p.w_probe_base == 0 && rng.chance(1, 6)
    };
    if zero {
        let i = rng.below(slots.len());
        slots[i] = 0;
        if rng.chance(1, 3) {
            let i = rng.below(slots.len());
            slots[i] = 0;
        }
    }
    Config {
        frames,
        alloc_all: rng.chance(3, 10),
        kind,
        slots,
    }
}

#[derive(Clone, Debug)]
pub struct SeqCase {
    pub profile: String,
    pub cfg: Config,
    pub at_end: bool,
    pub lower_fill: u8,
    pub steps: Vec<Step>,
}
impl SeqCase {
    pub fn to_json(&self) -> J {
        J::obj()
            .set("kind", "seq")
            .set("profile", self.profile.clone())
            .set("config", self.cfg.to_json())
            .set("buffers_at_end_guard", self.at_end)
            .set("lower_fill", self.lower_fill)
            .set(
                "steps",
                J::Arr(self.steps.iter().map(Step::to_json).collect()),
            )
    }
    pub fn from_json(j: &J) -> Option<Self> {
        Some(Self {
            profile: j.gs("profile").to_string(),
            cfg: Config::from_json(j.get("config")?),
            at_end: j.get("buffers_at_end_guard").and_then(J::b).unwrap_or(true),
            lower_fill: j.gu("lower_fill") as u8,
            steps: j.garr("steps").iter().filter_map(Step::from_json).collect(),
        })
    }
}

#[derive(Clone, Debug, Default)]
pub struct SeqStats {
    pub calls: u64,
    pub state_changing: u64,
    pub gets_ok: u64,
    pub gets_oom: u64,
    pub puts_ok: u64,
    pub puts_rejected: u64,
    pub badargs: u64,
    pub drains: u64,
    pub changes_ok: u64,
    pub changes_err: u64,
    pub offline_ok: u64,
    pub online_ok: u64,
    pub probes_base: u64,
    pub probes_at: u64,
    pub probes_at_expected_ok: u64,
    pub full_compares: u64,
    pub huge_splits: u64,
    pub steps: u64,
    pub persist_writes: u64,
    pub crash_points: u64,
    pub crash_inflight: u64,
    pub crash_in_split: u64,
    pub oom_with_reserved_global_free: u64,
    pub exhausts: u64,
    pub reinits: u64,
    pub handoffs: u64,
    pub lockstep_calls: u64,
}

pub struct SeqResult {
    pub violations: Vec<Violation>,
    /// ended by a violation of a property that is not enabled (counted, not reported)
    pub foreign: Option<Violation>,
    pub history: Vec<(Call, Outcome)>,
    pub hash: u64,
    pub stats: SeqStats,
    pub state_hashes: Vec<u64>,
}

pub struct SeqRunner<'a> {
    pub arenas: &'a Arenas,
    pub side: Option<Arc<Arenas>>,
    pub props: Props,
}

struct Run<'a> {
    cfg: Config,
    profile: Profile,
    alloc: LLFree<'static>,
    model: Model,
    ledger: Ledger,
    shared: &'a Shared,
    props: Props,
    out: Vec<Violation>,
    foreign: Option<Violation>,
    history: Vec<(Call, Outcome)>,
    stats: SeqStats,
    hasher: Hasher,
    lower_ptr: *const u8,
    lower_len: usize,
    lower_shadow: Vec<u8>,
    calls_since_full: usize,
    vrng: Rng,
    stop: bool,
    crash_on: bool,
    /// skip the per call state comparison (bulk steps)
    light: bool,
    /// second allocator after a warm handoff (C07)
    twin: Option<LLFree<'static>>,
    side: Option<Arc<Arenas>>,
}

impl Run<'_> {
    fn report(&mut self, v: Violation, fatal: bool) {
        let id = Props::id(v.prop);
        if self.props.has(id) {
            self.out.push(v);
        } else if fatal && self.foreign.is_none() {
            self.foreign = Some(v);
        }
        if fatal {
            self.stop = true;
        }
    }

    fn gen_class_slot(&self, rng: &mut Rng) -> (u8, Option<usize>) {
        if self.profile.single {
            return (0, Some(0));
        }
        let class = rng.below(self.cfg.slots.len()) as u8;
        let n = self.cfg.slots[class as usize];
        let slot = if n == 0 || rng.chance(1, 4) {
            None
        } else {
            Some(rng.below(n))
        };
        (class, slot)
    }
    fn gen_order(&self, rng: &mut Rng) -> usize {
        if self.profile.single {
            return 0;
        }
        match rng.below(10) {
            0..=4 => 0,
            5 => *rng.pick(&[6, 7, 8]),
            6 => HUGE_ORDER,
            7 => rng.range(HUGE_ORDER, TREE_ORDER),
            _ => rng.range(0, TREE_ORDER),
        }
    }
    /// Random aligned block, biased to one the model says is free
    fn gen_block(&self, rng: &mut Rng, want_free: bool) -> Option<Block> {
        let order = self.gen_order(rng);
        let len = 1usize << order;
        if len > self.cfg.frames {
            return None;
        }
        let n = self.cfg.frames / len;
        let start = rng.below(n);
        if want_free {
            for i in 0..n.min(64) {
                let b = Block::new(((start + i) % n) * len, order);
                if self.model.is_free_block(&b) {
                    return Some(b);
                }
            }
        }
        Some(Block::new(start * len, order))
    }

    fn gen_step(&mut self, rng: &mut Rng) -> Step {
        let p = &self.profile;
        let have = !self.ledger.held.is_empty();
        let w = [
            p.w_get,
            p.w_get_at,
            if have { p.w_put } else { 0 },
            if have { p.w_put_part } else { 0 },
            if have { p.w_put_merge } else { 0 },
            p.w_put_raw,
            p.w_drain,
            p.w_change,
            p.w_badarg,
            p.w_probe_base,
            p.w_probe_at,
            p.w_exhaust,
            p.w_reinit,
        ];
        let (class, slot) = self.gen_class_slot(rng);
        match rng.weighted(&w) {
            12 => Step::Reinit {
                recover: rng.chance(1, 2),
            },
            0 => Step::Call(Call::Get {
                target: None,
                order: self.gen_order(rng),
                class,
                slot,
            }),
            1 => {
                let want_free = rng.chance(2, 3);
                match self.gen_block(rng, want_free) {
                    Some(b) => Step::Call(Call::Get {
                        target: Some(b.frame),
                        order: b.order,
                        class,
                        // valid-parameter rule: any in-range slot or none
                        slot: if p.open || rng.chance(1, 2) {
                            slot
                        } else {
                            None
                        },
                    }),
                    None => Step::Call(Call::Drain),
                }
            }
            2 => Step::PutHeld {
                k: rng.below(self.ledger.held.len()),
                // C11 (allocate-all start): base frames of the held huge blocks
                sub: if p.single { Some((0, rng.below(HUGE_FRAMES))) } else { None },
                class,
                // C11: each frame is freed either through the slot or with no slot
                slot: if p.single && rng.chance(1, 2) {
                    None
                } else {
                    slot
                },
            },
            3 => {
                let k = rng.below(self.ledger.held.len());
                let b = *self.ledger.held.values().nth(k).unwrap();
                if b.order == 0 {
                    Step::PutHeld {
                        k,
                        sub: None,
                        class,
                        slot,
                    }
                } else {
                    let so = if rng.chance(1, 2) {
                        0
                    } else {
                        rng.below(b.order)
                    };
                    Step::PutHeld {
                        k,
                        sub: Some((so, rng.below(1 << (b.order - so)))),
                        class,
                        slot,
                    }
                }
            }
            4 => Step::PutMerge {
                k: rng.below(self.ledger.held.len()),
                class,
                slot,
            },
            5 => match self.gen_block(rng, false) {
                Some(b) => Step::Call(Call::Put {
                    frame: b.frame,
                    order: b.order,
                    class,
                    slot,
                }),
                None => Step::Call(Call::Drain),
            },
            6 => Step::Call(Call::Drain),
            7 => Step::Call(self.gen_change(rng)),
            8 => Step::Call(self.gen_badarg(rng)),
            9 => Step::ProbeBase { class, slot },
            11 if rng.chance(1, 3) && !self.ledger.held.is_empty() => Step::FreeTree {
                tree: rng.below(self.cfg.trees().max(1)),
                mode: rng.below(3) as u8,
                class,
                slot,
            },
            11 => Step::Exhaust { class, slot },
            _ => {
                let want_free = rng.chance(3, 5);
                match self.gen_block(rng, want_free) {
                    Some(b) => Step::ProbeAt {
                        frame: b.frame,
                        order: b.order,
                        class,
                        slot,
                    },
                    None => Step::ProbeBase { class, slot },
                }
            }
        }
    }

    fn gen_change(&self, rng: &mut Rng) -> Call {
        let trees = self.cfg.trees().max(1);
        let classes = self.cfg.slots.len();
        let id_space = if self.profile.open { 2 * trees } else { trees };
        let some_class = |rng: &mut Rng| Some(rng.below(classes) as u8);
        match rng.below(10) {
            // offline an entirely free tree by id
            0..=2 => {
                let t = rng.below(id_space);
                Call::Change {
                    id: Some(t),
                    mclass: if rng.chance(1, 4) {
                        some_class(rng)
                    } else {
                        None
                    },
                    mfree: self.model.tree_len(t).max(1),
                    class: if rng.chance(1, 4) {
                        some_class(rng)
                    } else {
                        None
                    },
                    op: 2,
                }
            }
            // offline by class matcher
            3 => Call::Change {
                id: None,
                mclass: if rng.chance(1, 2) {
                    some_class(rng)
                } else {
                    None
                },
                mfree: TREE_FRAMES,
                class: None,
                op: 2,
            },
            // online an offline tree (or any)
            4..=6 => {
                let t = if !self.model.offline.is_empty() && rng.chance(4, 5) {
                    *self
                        .model
                        .offline
                        .iter()
                        .nth(rng.below(self.model.offline.len()))
                        .unwrap()
                } else {
                    rng.below(id_space)
                };
                Call::Change {
                    id: if rng.chance(4, 5) { Some(t) } else { None },
                    mclass: if rng.chance(1, 5) {
                        some_class(rng)
                    } else {
                        None
                    },
                    mfree: 0,
                    class: if rng.chance(1, 2) {
                        some_class(rng)
                    } else {
                        None
                    },
                    op: 1,
                }
            }
            // class change only
            _ => Call::Change {
                id: if rng.chance(1, 2) {
                    Some(rng.below(id_space))
                } else {
                    None
                },
                mclass: if rng.chance(1, 2) {
                    some_class(rng)
                } else {
                    None
                },
                mfree: *rng.pick(&[0, 1, TREE_FRAMES / 2, TREE_FRAMES]),
                class: some_class(rng),
                op: 0,
            },
        }
    }

    fn gen_badarg(&self, rng: &mut Rng) -> Call {
        let n = self.cfg.frames;
        let (class, slot) = self.gen_class_slot(rng);
        let is_get = rng.chance(1, 2);
        let mk = |frame: usize, order: usize, class: u8| {
            if is_get {
                Call::Get {
                    target: Some(frame),
                    order,
                    class,
                    slot,
                }
            } else {
                Call::Put {
                    frame,
                    order,
                    class,
                    slot,
                }
            }
        };
        match rng.below(6) {
            // order too large
            0 => {
                let order = TREE_ORDER + rng.range(1, 3);
                if is_get && rng.chance(1, 2) {
                    Call::Get {
                        target: None,
                        order,
                        class,
                        slot,
                    }
                } else {
                    mk(0, order, class)
                }
            }
            // past the end
            1 => {
                let order = rng.range(0, TREE_ORDER);
                let len = 1usize << order;
                let f = match rng.below(4) {
                    0 => n,
                    1 => n.next_multiple_of(len),
                    2 => (n / len) * len + if n % len == 0 { 0 } else { 0 },
                    _ => n + len * rng.range(0, 3),
                };
                // aligned, but the block must extend past the range
                let f = f.next_multiple_of(len);
                let f = if f + len <= n {
                    n.next_multiple_of(len)
                } else {
                    f
                };
                mk(f, order, class)
            }
            // misaligned
            2 => {
                let order = rng.range(1, TREE_ORDER);
                let len = 1usize << order;
                let base = if n > len { rng.below(n / len) * len } else { 0 };
                mk(base + rng.range(1, len - 1), order, class)
            }
            // unconfigured class
            3 => {
                let c = rng.range(self.cfg.slots.len(), 7) as u8;
                let order = rng.range(0, 3);
                if is_get && rng.chance(1, 2) {
                    Call::Get {
                        target: None,
                        order,
                        class: c,
                        slot: None,
                    }
                } else {
                    let len = 1usize << order;
                    let f = if n >= len {
                        rng.below(n / len) * len
                    } else {
                        0
                    };
                    if is_get {
                        Call::Get {
                            target: Some(f),
                            order,
                            class: c,
                            slot: None,
                        }
                    } else {
                        Call::Put {
                            frame: f,
                            order,
                            class: c,
                            slot: None,
                        }
                    }
                }
            }
            // huge frame numbers (the bounds check adds before comparing)
            4 => {
                let order = rng.range(0, TREE_ORDER);
                let len = 1usize << order;
                let f = if rng.chance(1, 2) {
                    (usize::MAX / 2 + rng.below(1 << 20)) / len * len
                } else {
                    // frame + size wraps around
                    (usize::MAX - rng.below(1 << 12)) / len * len
                };
                mk(f, order, class)
            }
            // last frame with too large order
            _ => {
                let order = rng.range(1, TREE_ORDER);
                let len = 1usize << order;
                let f = n.saturating_sub(1) / len * len;
                let f = if f + len <= n { f + len } else { f };
                mk(f, order, class)
            }
        }
    }

    /// Resolve a symbolic step to the concrete calls it performs
    fn resolve(&self, step: &Step) -> Option<Call> {
        match step {
            Step::Call(c) => Some(c.clone()),
            Step::PutHeld {
                k,
                sub,
                class,
                slot,
            } => {
                if self.ledger.held.is_empty() {
                    return None;
                }
                let b = *self
                    .ledger
                    .held
                    .values()
                    .nth(k % self.ledger.held.len())
                    .unwrap();
                let (frame, order) = match sub {
                    Some((so, idx)) if *so < b.order => {
                        let parts = 1usize << (b.order - so);
                        (b.frame + (idx % parts) * (1 << so), *so)
                    }
                    _ => (b.frame, b.order),
                };
                Some(Call::Put {
                    frame,
                    order,
                    class: *class,
                    slot: *slot,
                })
            }
            Step::PutMerge { k, class, slot } => {
                if self.ledger.held.is_empty() {
                    return None;
                }
                let b = *self
                    .ledger
                    .held
                    .values()
                    .nth(k % self.ledger.held.len())
                    .unwrap();
                if b.order >= TREE_ORDER {
                    return None;
                }
                let len = 2usize << b.order;
                let frame = b.frame / len * len;
                if frame + len > self.cfg.frames {
                    return None;
                }
                Some(Call::Put {
                    frame,
                    order: b.order + 1,
                    class: *class,
                    slot: *slot,
                })
            }
            Step::ProbeBase { class, slot } | Step::Exhaust { class, slot } => Some(Call::Get {
                target: None,
                order: 0,
                class: *class,
                slot: *slot,
            }),
            Step::Warm | Step::FreeTree { .. } | Step::Reinit { .. } => None,
            Step::ProbeAt {
                frame,
                order,
                class,
                slot,
            } => Some(Call::Get {
                target: Some(*frame),
                order: *order,
                class: *class,
                slot: *slot,
            }),
        }
    }

    fn lower_changed(&mut self) -> bool {
        if cfg!(miri) {
            return true;
        }
        let cur = unsafe { std::slice::from_raw_parts(self.lower_ptr, self.lower_len) };
        if cur != self.lower_shadow.as_slice() {
            self.lower_shadow.copy_from_slice(cur);
            true
        } else {
            false
        }
    }

    /// Execute one concrete call under the hooks, judge it against the model.
    fn do_call(&mut self, call: Call, probe: Option<&Step>) {
        let valid = call.args_valid(&self.cfg);
        let model_before_free = self.model.free_frames();
        let is_change = matches!(call, Call::Change { .. });
        let snap_before = if is_change || !valid {
            Some(masked(|| tree_snapshot(&self.alloc, self.cfg.trees())))
        } else {
            None
        };
        let fast_before = if !valid {
            masked(|| guarded(|| self.alloc.tree_stats().free_frames).ok())
        } else {
            None
        };
        let id = self.history.len();
        {
            let mut w = self.shared.lock();
            w.cur_call[0] = Some(id);
            if let Some(c) = w.crash.as_mut() {
                c.ledger.invoke(id, &call);
            }
        }
        self.ledger.invoke(id, &call);
        let outcome = exec(&self.alloc, &call);
        {
            let mut w = self.shared.lock();
            w.call_end(0);
            let w = &mut *w;
            if let Some(c) = w.crash.as_mut() {
                c.ledger.ret(id, &outcome);
                if self.crash_on && !outcome.is_panic() {
                    // crash right after this call returned
                    let label = format!("crash after call #{id} {call:?} returned {outcome:?}");
                    masked(|| c.evaluate(&w.shadow_lower, &label, true));
                }
            }
        }
        self.ledger.ret(id, &outcome);
        self.stats.calls += 1;
        self.hasher
            .add_bytes(format!("{call:?}{outcome:?}").as_bytes());
        self.history.push((call.clone(), outcome.clone()));

        // ---- judge ----
        if let Outcome::Panic { msg, loc } = &outcome {
            // a malformed call must be rejected with an error (C08); a valid one must return (C09)
            self.report(
                Violation::new(
                    if valid { "C09" } else { "C08" },
                    if valid {
                        panic_signature(msg, loc)
                    } else {
                        format!("invalid-argument-{}", panic_signature(msg, loc))
                    },
                    format!("call #{id} {call:?} panicked: {msg} at {loc}"),
                ),
                true,
            );
            return;
        }
        if outcome == Outcome::Aborted {
            // the call exceeded the step budget of a single call: it would never return
            for prop in ["C09", "C21"] {
                if self.props.has(Props::id(prop)) {
                    self.out.push(Violation::new(
                        prop,
                        "call-did-not-return",
                        format!("call #{id} {call:?} did not return within the step budget of one call (retry loop or recursion without bound)"),
                    ));
                }
            }
            self.stop = true;
            return;
        }
        let mut changed_model = false;
        if !valid {
            self.stats.badargs += 1;
            if outcome != Outcome::Err(ErrKind::Argument) {
                let fatal = !matches!(outcome, Outcome::Err(_));
                // an untargeted request larger than the managed range names no block:
                // out-of-memory is an acceptable answer for it
                let untargeted_too_big = matches!(&call, Call::Get { target: None, order, class, .. }
                    if *order <= TREE_ORDER && self.cfg.class_ok(*class));
                if !(untargeted_too_big && outcome == Outcome::Err(ErrKind::Memory)) {
                    self.report(
                        Violation::new(
                            "C08",
                            "invalid-argument-not-rejected",
                            format!(
                                "call #{id} {call:?} has invalid arguments but returned {outcome:?}"
                            ),
                        ),
                        fatal,
                    );
                    if fatal {
                        return;
                    }
                }
            }
        } else {
            match (&call, &outcome) {
                (
                    Call::Get {
                        target,
                        order,
                        class,
                        ..
                    },
                    Outcome::GetOk { frame, class: c },
                ) => {
                    let b = Block::new(*frame, *order);
                    self.stats.gets_ok += 1;
                    if let Some(t) = target
                        && t != frame
                    {
                        self.report(
                            Violation::new(
                                "C02",
                                "targeted-get-other-frame",
                                format!("call #{id} {call:?} returned frame {frame}"),
                            ),
                            true,
                        );
                        return;
                    }
                    if !self.model.in_range(&b) || !Model::aligned(&b) {
                        self.report(
                            Violation::new(
                                "C01",
                                "get-misaligned-or-out-of-range",
                                format!(
                                    "call #{id} {call:?} returned frame {frame} (frames={})",
                                    self.cfg.frames
                                ),
                            ),
                            true,
                        );
                        return;
                    }
                    if !self.model.is_free_block(&b) {
                        let v = Violation::new(
                            "C02",
                            "get-returned-allocated-block",
                            format!(
                                "call #{id} {call:?} returned frame {frame}, but the block is not entirely free in the model"
                            ),
                        );
                        // the same fact is a C01 violation (overlap with a held block)
                        if self.props.has(1) && !self.props.has(2) {
                            self.report(
                                Violation::new("C01", "seq-overlap", v.detail.clone()),
                                true,
                            );
                        } else {
                            self.report(v, true);
                        }
                        return;
                    }
                    if self.model.block_offline(&b) {
                        self.report(
                            Violation::new(
                                "C15",
                                "get-from-offline-tree",
                                format!(
                                    "call #{id} {call:?} returned frame {frame} in offline tree {}",
                                    b.tree()
                                ),
                            ),
                            true,
                        );
                        return;
                    }
                    if !class_permitted(&self.cfg, *class, *c, *order) {
                        self.report(
                            Violation::new(
                                "C13",
                                "class-not-permitted",
                                format!("call #{id} {call:?} reported class {c}, which the policy rates neither match nor steal for class {class}"),
                            ),
                            false,
                        );
                    }
                    self.model.apply_get(&b);
                    changed_model = true;
                }
                (Call::Get { .. }, Outcome::Err(e)) => {
                    self.stats.gets_oom += 1;
                    if *e != ErrKind::Memory {
                        self.report(
                            Violation::new(
                                "C10",
                                "valid-get-wrong-error",
                                format!(
                                    "call #{id} {call:?} has valid arguments but returned {e:?}"
                                ),
                            ),
                            false,
                        );
                    }
                }
                (Call::Put { frame, order, .. }, out) => {
                    let b = Block::new(*frame, *order);
                    let verdict = self.model.put_verdict(&b);
                    match (verdict, out) {
                        (PutVerdict::Ok, Outcome::Ok) => {
                            if *order < HUGE_ORDER && self.model.whole[frame / HUGE_FRAMES] {
                                self.stats.huge_splits += 1;
                            }
                            self.model.apply_put(&b);
                            changed_model = true;
                            self.stats.puts_ok += 1;
                        }
                        (PutVerdict::Fail, Outcome::Err(_)) => {
                            self.stats.puts_rejected += 1;
                        }
                        (PutVerdict::Ok, _) => {
                            self.report(
                                Violation::new(
                                    "C02",
                                    "valid-free-rejected",
                                    format!("call #{id} {call:?}: every frame is allocated in the model, but it returned {out:?}"),
                                ),
                                true,
                            );
                            return;
                        }
                        (PutVerdict::Fail, _) => {
                            self.report(
                                Violation::new(
                                    "C02",
                                    "invalid-free-accepted",
                                    format!("call #{id} {call:?}: the model says this free must fail, but it returned {out:?}"),
                                ),
                                true,
                            );
                            return;
                        }
                    }
                }
                (Call::Drain, _) => self.stats.drains += 1,
                (Call::Change { .. }, _) => {}
                _ => {}
            }
        }

        // tree changes are judged by observation of the tree array
        if let Call::Change {
            id: mid,
            mclass,
            mfree,
            class,
            op,
        } = &call
        {
            let before = snap_before.as_ref().unwrap();
            let after = masked(|| tree_snapshot(&self.alloc, self.cfg.trees()));
            let diff: Vec<usize> = (0..before.len())
                .filter(|&t| before[t] != after[t])
                .collect();
            let matches_t = |t: usize| {
                let (c, f, r) = before[t];
                !r && mclass.is_none_or(|m| m == c) && f >= *mfree
            };
            match &outcome {
                Outcome::Ok => {
                    self.stats.changes_ok += 1;
                    if diff.len() > 1 {
                        self.report(
                            Violation::new(
                                "C15",
                                "change-touched-several-trees",
                                format!("call #{id} {call:?} changed trees {diff:?}"),
                            ),
                            true,
                        );
                        return;
                    }
                    let Some(&t) = diff.first() else {
                        // no visible change: some matching tree must be a fixpoint of the change
                        let fix = |t: usize| {
                            matches_t(t)
                                && mid.is_none_or(|m| m == t)
                                && class.is_none_or(|c| c == before[t].0)
                                && match op {
                                    0 => true,
                                    2 => before[t].1 == 0,
                                    _ => before[t].1 == 0 && self.model.tree_free(t) == 0,
                                }
                        };
                        if !(0..before.len()).any(fix) {
                            self.report(
                                Violation::new("C15", "change-succeeded-without-match", format!("call #{id} {call:?} returned Ok, but no matching tree was changed: {before:?}")),
                                false,
                            );
                        }
                        return self.after_call(
                            id,
                            &call,
                            &outcome,
                            valid,
                            changed_model,
                            snap_before,
                            fast_before,
                        );
                    };
                    if !matches_t(t) || mid.is_some_and(|m| m != t) {
                        self.report(
                            Violation::new(
                                "C15",
                                "change-applied-to-reserved-or-nonmatching",
                                format!(
                                    "call #{id} {call:?} changed tree {t} from {:?} to {:?}",
                                    before[t], after[t]
                                ),
                            ),
                            false,
                        );
                        // a pure class change does not touch the frame model: the history goes on
                        // (a later panic is C09's business); anything else cannot be followed
                        if *op != 0 || after[t].1 != before[t].1 {
                            self.stop = true;
                            return;
                        }
                        return self.after_call(
                            id,
                            &call,
                            &outcome,
                            valid,
                            changed_model,
                            snap_before,
                            fast_before,
                        );
                    }
                    let want_class = class.unwrap_or(before[t].0);
                    if after[t].0 != want_class || after[t].2 {
                        self.report(
                            Violation::new(
                                "C15",
                                "change-wrong-class",
                                format!("call #{id} {call:?}: tree {t} is {:?} afterwards, expected class {want_class}", after[t]),
                            ),
                            false,
                        );
                    }
                    match op {
                        2 => {
                            self.stats.offline_ok += 1;
                            if self.model.tree_free(t) == self.model.tree_len(t) {
                                self.model.offline.insert(t);
                            } else {
                                // a partially allocated tree taken offline is outside the stated
                                // properties: stop judging this history
                                self.stop = true;
                                return;
                            }
                        }
                        1 => {
                            self.stats.online_ok += 1;
                            self.model.offline.remove(&t);
                            if after[t].1 != self.model.tree_free(t) {
                                self.report(
                                    Violation::new(
                                        "C15",
                                        "online-wrong-counter",
                                        format!("call #{id} {call:?}: tree {t} counter {} after online, model has {} free", after[t].1, self.model.tree_free(t)),
                                    ),
                                    false,
                                );
                            }
                        }
                        _ => {
                            if after[t].1 != before[t].1 {
                                self.report(
                                    Violation::new(
                                        "C15",
                                        "class-change-modified-counter",
                                        format!(
                                            "call #{id} {call:?}: tree {t} {:?} -> {:?}",
                                            before[t], after[t]
                                        ),
                                    ),
                                    true,
                                );
                                return;
                            }
                        }
                    }
                }
                Outcome::Err(_) => {
                    self.stats.changes_err += 1;
                    if !diff.is_empty() {
                        self.report(
                            Violation::new(
                                "C15",
                                "failed-change-modified-tree",
                                format!("call #{id} {call:?} failed but changed trees {diff:?}"),
                            ),
                            true,
                        );
                        return;
                    }
                    // offline of an unreserved entirely free tree by id must succeed
                    if *op == 2
                        && let Some(t) = mid
                        && *t < before.len()
                        && matches_t(*t)
                        && self.model.tree_free(*t) == self.model.tree_len(*t)
                        && !self.model.offline.contains(t)
                    {
                        self.report(
                            Violation::new("C15", "offline-of-free-tree-failed", format!("call #{id} {call:?} failed although tree {t} = {:?} is unreserved and entirely free", before[*t])),
                            false,
                        );
                    }
                }
                _ => {}
            }
        }

        self.after_call2(
            id,
            &call,
            &outcome,
            valid,
            changed_model,
            snap_before,
            fast_before,
            probe,
            model_before_free,
        );
    }

    #[allow(clippy::too_many_arguments)]
    fn after_call(
        &mut self,
        id: usize,
        call: &Call,
        outcome: &Outcome,
        valid: bool,
        changed_model: bool,
        snap_before: Option<Vec<(u8, usize, bool)>>,
        fast_before: Option<usize>,
    ) {
        self.after_call2(
            id,
            call,
            outcome,
            valid,
            changed_model,
            snap_before,
            fast_before,
            None,
            0,
        )
    }

    #[allow(clippy::too_many_arguments)]
    fn after_call2(
        &mut self,
        id: usize,
        call: &Call,
        outcome: &Outcome,
        valid: bool,
        changed_model: bool,
        snap_before: Option<Vec<(u8, usize, bool)>>,
        fast_before: Option<usize>,
        probe: Option<&Step>,
        model_before_free: usize,
    ) {
        let (call, outcome) = (call.clone(), outcome.clone());
        // C10 / C11 completeness probes
        if let (Call::Get { target, order, .. }, Outcome::Err(_)) = (&call, &outcome) {
            match probe {
                Some(Step::ProbeBase { .. }) => {
                    if self.model.online_free() > 0 {
                        self.report(
                            Violation::new(
                                "C10",
                                "oom-after-drain-with-free-frames",
                                format!("call #{id} drain + {call:?} returned {outcome:?}, model has {} free frames outside offline trees", self.model.online_free()),
                            ),
                            false,
                        );
                    }
                }
                Some(Step::ProbeAt { .. }) => {
                    let b = Block::new(target.unwrap(), *order);
                    if self.model.get_allowed(&b) {
                        self.report(
                            Violation::new(
                                "C10",
                                "targeted-get-of-free-block-failed",
                                format!("call #{id} drain + {call:?} returned {outcome:?}, but the block is entirely free and online in the model"),
                            ),
                            false,
                        );
                    }
                }
                _ => {}
            }
            if self.profile.single && valid && target.is_none() && model_before_free > 0 {
                // discriminating fact for the signature: how many frames sit in the global
                // counter of the slot's own reserved tree
                let snap = masked(|| tree_snapshot(&self.alloc, self.cfg.trees()));
                let reserved_global: usize = snap.iter().filter(|t| t.2).map(|t| t.1).sum();
                let unreserved: usize = snap.iter().filter(|t| !t.2).map(|t| t.1).sum();
                self.stats.oom_with_reserved_global_free += 1;
                let sig = if unreserved == 0 && reserved_global == model_before_free {
                    format!(
                        "oom-with-free:all-in-own-reserved-tree-global-counter:{}",
                        reserved_global.min(2)
                    )
                } else {
                    "oom-with-free:other".to_string()
                };
                self.report(
                    Violation::new(
                        "C11",
                        sig,
                        format!("call #{id} {call:?} returned {outcome:?} with {model_before_free} frames free (trees: {snap:?})"),
                    ),
                    false,
                );
            }
        }

        if let Some(twin) = &self.twin {
            // C07: the allocator built from the byte copies must answer identically
            let other = masked(|| exec(twin, &call));
            self.stats.lockstep_calls += 1;
            if other != outcome {
                self.report(
                    Violation::new(
                        "C07",
                        "lockstep-result-differs",
                        format!("call #{id} {call:?}: original returned {outcome:?}, the allocator rebuilt from its metadata returned {other:?}"),
                    ),
                    true,
                );
                return;
            }
            let cmp = masked(|| {
                guarded(|| twin_diff(&self.alloc, twin, &mut self.vrng, self.cfg.frames))
            });
            if let Ok(Some(d)) = cmp {
                self.report(
                    Violation::new(
                        "C07",
                        "lockstep-stats-differ",
                        format!("after call #{id} {call:?} -> {outcome:?}: {d}"),
                    ),
                    true,
                );
                return;
            }
        }
        if self.light {
            if changed_model {
                self.stats.state_changing += 1;
            }
            return;
        }
        // ---- state comparison ----
        let lower_changed = self.lower_changed();
        self.calls_since_full += 1;
        if changed_model {
            self.stats.state_changing += 1;
        }
        if lower_changed || changed_model || self.calls_since_full >= 16 {
            self.calls_since_full = 0;
            self.stats.full_compares += 1;
            let cmp = masked(|| guarded(|| compare_frames(&self.alloc, &self.model)));
            match cmp {
                Ok(Some((f, got_free, want_free))) => {
                    let (prop, sig) = if !valid {
                        ("C08", "rejected-call-changed-state")
                    } else {
                        ("C02", "frame-state-diverged")
                    };
                    self.report(
                        Violation::new(
                            prop,
                            sig,
                            format!("after call #{id} {call:?} -> {outcome:?}: frame {f} free={got_free} in the allocator, free={want_free} in the model"),
                        ),
                        true,
                    );
                    return;
                }
                Err(Outcome::Panic { msg, loc }) => {
                    self.report(
                        Violation::new(
                            "C09",
                            format!("query-{}", panic_signature(&msg, &loc)),
                            format!("stats_at panicked after call #{id}: {msg} at {loc}"),
                        ),
                        true,
                    );
                    return;
                }
                _ => {}
            }
        }
        if !valid {
            // no side effects at all, including reservation-visible state
            let after = masked(|| tree_snapshot(&self.alloc, self.cfg.trees()));
            let fast_after = masked(|| guarded(|| self.alloc.tree_stats().free_frames).ok());
            if Some(&after) != snap_before.as_ref() || fast_after != fast_before {
                self.report(
                    Violation::new(
                        "C08",
                        "rejected-call-changed-counters",
                        format!("after call #{id} {call:?} -> {outcome:?}: tree array / fast count changed"),
                    ),
                    true,
                );
                return;
            }
        }
        if self.props.has(4) || self.props.has(6) {
            let mut v = Vec::new();
            masked(|| check_views(&self.alloc, &self.model, &mut self.vrng, &mut v));
            for mut x in v {
                x.detail = format!("after call #{id} {call:?} -> {outcome:?}: {}", x.detail);
                self.report(x, false);
            }
        }
        if self.props.has(14) {
            let mut v = Vec::new();
            masked(|| check_class_sums(&self.alloc, &self.cfg, &mut v));
            for mut x in v {
                x.detail = format!("after call #{id} {call:?} -> {outcome:?}: {}", x.detail);
                self.report(x, false);
            }
        }
    }

    fn do_step(&mut self, step: &Step) {
        match step {
            Step::FreeTree {
                tree,
                mode,
                class,
                slot,
            } => {
                let lo = tree * TREE_FRAMES;
                let blocks: Vec<Block> = self
                    .ledger
                    .held
                    .range(lo..lo + TREE_FRAMES)
                    .map(|(_, b)| *b)
                    .collect();
                self.light = true;
                for (i, b) in blocks.iter().enumerate() {
                    let s = match mode {
                        0 => None,
                        1 => *slot,
                        _ => {
                            if i % 3 == 0 {
                                *slot
                            } else {
                                None
                            }
                        }
                    };
                    self.do_call(
                        Call::Put {
                            frame: b.frame,
                            order: b.order,
                            class: *class,
                            slot: s,
                        },
                        None,
                    );
                    if self.stop {
                        break;
                    }
                }
                self.light = false;
                if !self.stop {
                    self.lower_changed();
                    self.stats.full_compares += 1;
                    if let Ok(Some((f, got, want))) =
                        masked(|| guarded(|| compare_frames(&self.alloc, &self.model)))
                    {
                        self.report(
                            Violation::new("C02", "frame-state-diverged", format!("after freeing tree {tree}: frame {f} free={got} in the allocator, free={want} in the model")),
                            true,
                        );
                    }
                }
            }
            Step::Exhaust { .. } => {
                self.stats.exhausts += 1;
                let Some(c) = self.resolve(step) else { return };
                if !c.args_valid(&self.cfg) {
                    return;
                }
                self.light = true;
                for _ in 0..self.cfg.frames + 2 {
                    let before = self.stats.gets_ok;
                    self.do_call(c.clone(), None);
                    if self.stop || self.stats.gets_ok == before {
                        break;
                    }
                }
                self.light = false;
                if !self.stop {
                    // one full comparison at the end of the bulk (no allocator call: a drain
                    // here would destroy the reservation state the histories are about)
                    self.lower_changed();
                    self.calls_since_full = 0;
                    self.stats.full_compares += 1;
                    if let Ok(Some((f, got, want))) =
                        masked(|| guarded(|| compare_frames(&self.alloc, &self.model)))
                    {
                        self.report(
                            Violation::new(
                                "C02",
                                "frame-state-diverged",
                                format!("after exhausting memory with {c:?}: frame {f} free={got} in the allocator, free={want} in the model"),
                            ),
                            true,
                        );
                    }
                }
            }
            Step::Warm => self.handoff(),
            Step::Reinit { recover } => self.reinit(*recover),
            Step::ProbeBase { .. } | Step::ProbeAt { .. } => {
                if self.cfg.kind == ClassKind::Custom {
                    return;
                }
                if matches!(step, Step::ProbeBase { .. }) {
                    self.stats.probes_base += 1;
                } else {
                    self.stats.probes_at += 1;
                }
                self.do_call(Call::Drain, None);
                if self.stop {
                    return;
                }
                if let Some(c) = self.resolve(step) {
                    if !c.args_valid(&self.cfg) {
                        return;
                    }
                    if let Call::Get {
                        target: Some(t),
                        order,
                        ..
                    } = &c
                        && self.model.get_allowed(&Block::new(*t, *order))
                    {
                        self.stats.probes_at_expected_ok += 1;
                    }
                    self.do_call(c, Some(step));
                }
            }
            _ => {
                if let Some(c) = self.resolve(step) {
                    self.do_call(c, None);
                }
            }
        }
    }
}

impl Run<'_> {
    /// F-crash (quiescent, cold) / F-warm in place: rebuild the allocator over its own buffers
    fn reinit(&mut self, recover: bool) {
        if self.twin.is_some() || self.crash_on || cfg!(miri) {
            return;
        }
        self.stats.reinits += 1;
        let (local, trees, lower) = {
            let w = self.shared.lock();
            (w.locals, w.trees, w.lower)
        };
        let cfg = self.cfg.clone();
        let r = masked(|| unsafe {
            let l = std::slice::from_raw_parts_mut(local.start as *mut u8, local.len);
            let t = std::slice::from_raw_parts_mut(trees.start as *mut u8, trees.len);
            let p = std::slice::from_raw_parts_mut(lower.start as *mut u8, lower.len);
            if recover {
                // only the persistent buffer survives
                l.fill(0);
                t.fill(0);
            }
            create(
                &cfg,
                if recover {
                    llfree::Init::Recover
                } else {
                    llfree::Init::None
                },
                crate::exec::Bufs {
                    local: l,
                    trees: t,
                    lower: p,
                },
            )
        });
        let what = if recover {
            "Init::Recover over its own persistent buffer"
        } else {
            "Init::None over its own buffers"
        };
        match r {
            Ok(Ok(a)) => {
                self.alloc = a;
                if recover {
                    // offline is volatile state: recovery rebuilds every tree counter
                    self.model.offline.clear();
                }
                unsafe {
                    let mut w = self.shared.lock();
                    w.attach(
                        cfg.frames,
                        std::slice::from_raw_parts(lower.start as *const u8, lower.len),
                        std::slice::from_raw_parts(trees.start as *const u8, trees.len),
                        std::slice::from_raw_parts(local.start as *const u8, local.len),
                    );
                }
                self.lower_changed();
                self.stats.full_compares += 1;
                if let Ok(Some((f, got, want))) =
                    masked(|| guarded(|| compare_frames(&self.alloc, &self.model)))
                {
                    self.report(
                        Violation::new(
                            if recover { "C05" } else { "C07" },
                            "reinit-frame-state",
                            format!("after {what}: frame {f} free={got} in the allocator, free={want} in the model"),
                        ),
                        true,
                    );
                    return;
                }
                if self.props.has(4) {
                    let mut v = Vec::new();
                    masked(|| check_views(&self.alloc, &self.model, &mut self.vrng, &mut v));
                    for mut x in v {
                        x.detail = format!("after {what}: {}", x.detail);
                        self.report(x, false);
                    }
                }
            }
            Ok(Err(e)) => self.report(
                Violation::new("C09", "reinit-error", format!("{what} returned {e:?}")),
                true,
            ),
            Err(Outcome::Panic { msg, loc }) => self.report(
                Violation::new(
                    "C09",
                    format!("reinit-{}", panic_signature(&msg, &loc)),
                    format!("{what} panicked: {msg} at {loc}"),
                ),
                true,
            ),
            Err(_) => self.stop = true,
        }
    }

    /// F-warm: byte-copy the three buffers and build a second allocator with `Init::None`
    fn handoff(&mut self) {
        if self.twin.is_some() || cfg!(miri) {
            return;
        }
        let Some(side) = self.side.clone() else {
            return;
        };
        self.stats.handoffs += 1;
        let (local, trees, lower) = {
            let w = self.shared.lock();
            (w.locals, w.trees, w.lower)
        };
        let r = masked(|| {
            let bufs = unsafe { side.bufs(&self.cfg, true, 0) };
            unsafe {
                bufs.local.copy_from_slice(std::slice::from_raw_parts(
                    local.start as *const u8,
                    local.len,
                ));
                bufs.trees.copy_from_slice(std::slice::from_raw_parts(
                    trees.start as *const u8,
                    trees.len,
                ));
                bufs.lower.copy_from_slice(std::slice::from_raw_parts(
                    lower.start as *const u8,
                    lower.len,
                ));
            }
            create(&self.cfg, llfree::Init::None, bufs)
        });
        match r {
            Ok(Ok(twin)) => {
                let cmp = masked(|| {
                    guarded(|| twin_diff(&self.alloc, &twin, &mut self.vrng, self.cfg.frames))
                });
                if let Ok(Some(d)) = cmp {
                    self.report(
                        Violation::new(
                            "C07",
                            "handoff-stats-differ",
                            format!("right after the handoff: {d}"),
                        ),
                        true,
                    );
                }
                self.twin = Some(twin);
            }
            Ok(Err(e)) => self.report(
                Violation::new(
                    "C07",
                    "handoff-init-error",
                    format!("LLFree::new(Init::None) over the copied buffers returned {e:?}"),
                ),
                true,
            ),
            Err(Outcome::Panic { msg, loc }) => self.report(
                Violation::new(
                    "C07",
                    format!("handoff-{}", panic_signature(&msg, &loc)),
                    format!("LLFree::new(Init::None) panicked: {msg} at {loc}"),
                ),
                true,
            ),
            Err(_) => {}
        }
    }
}

/// First observable difference between two allocators (statistics views)
fn twin_diff(a: &LLFree, b: &LLFree, rng: &mut Rng, frames: usize) -> Option<String> {
    let (sa, sb) = (a.stats(), b.stats());
    if (sa.free_frames, sa.free_huge, sa.free_trees)
        != (sb.free_frames, sb.free_huge, sb.free_trees)
    {
        return Some(format!("stats() {sa:?} vs {sb:?}"));
    }
    let (ta, tb) = (a.tree_stats(), b.tree_stats());
    let key = |t: &llfree::TreeStats| {
        (
            t.free_frames,
            t.free_trees,
            t.classes
                .iter()
                .map(|c| (c.free_frames, c.alloc_frames))
                .collect::<Vec<_>>(),
        )
    };
    if key(&ta) != key(&tb) {
        return Some(format!("tree_stats() {ta:?} vs {tb:?}"));
    }
    if frames > 0 {
        for _ in 0..8 {
            let f = rng.below(frames);
            for order in [0, HUGE_ORDER, TREE_ORDER] {
                let f = f >> order << order;
                let (x, y) = (
                    a.stats_at(llfree::FrameId(f), order),
                    b.stats_at(llfree::FrameId(f), order),
                );
                if (x.free_frames, x.free_huge, x.free_trees)
                    != (y.free_frames, y.free_huge, y.free_trees)
                {
                    return Some(format!("stats_at({f}, {order}) {x:?} vs {y:?}"));
                }
            }
        }
    }
    None
}

impl SeqRunner<'_> {
    /// Run one sequential case. With `generate = Some((rng, n))`, `n` steps are generated on the
    /// fly (and appended to `case.steps`); otherwise `case.steps` is executed as given.
    pub fn run(&self, case: &mut SeqCase, mut generate: Option<(&mut Rng, usize)>) -> SeqResult {
        let profile = Profile::by_name(&case.profile);
        let cfg = case.cfg.clone();
        let mut world = World::new(1, 0);
        world.state_sample = 4;
        // sequential histories are bounded per call only (a bulk step is many short calls)
        world.step_cap = u64::MAX;
        world.call_cap += 2_000 * cfg.trees() as u64;
        let crash_on = self.props.has(5) && self.side.is_some();
        let bufs = unsafe { self.arenas.bufs(&cfg, case.at_end, case.lower_fill) };
        let (lp, ll) = (bufs.lower.as_ptr(), bufs.lower.len());
        let (tp, tl) = (bufs.trees.as_ptr(), bufs.trees.len());
        let (cp, cl) = (bufs.local.as_ptr(), bufs.local.len());
        let mut res = SeqResult {
            violations: Vec::new(),
            foreign: None,
            history: Vec::new(),
            hash: 0,
            stats: SeqStats::default(),
            state_hashes: Vec::new(),
        };
        let alloc = match create(&cfg, cfg.init(), bufs) {
            Ok(Ok(a)) => a,
            Ok(Err(e)) => {
                let v = Violation::new(
                    "C09",
                    "init-error",
                    format!("LLFree::new({cfg:?}) returned {e:?}"),
                );
                if self.props.has(9) || self.props.has(6) {
                    res.violations.push(v);
                } else {
                    res.foreign = Some(v);
                }
                return res;
            }
            Err(Outcome::Panic { msg, loc }) => {
                let v = Violation::new(
                    "C09",
                    format!("init-{}", panic_signature(&msg, &loc)),
                    format!("LLFree::new({cfg:?}) panicked: {msg} at {loc}"),
                );
                if self.props.has(9) {
                    res.violations.push(v);
                } else {
                    res.foreign = Some(v);
                }
                return res;
            }
            Err(_) => return res,
        };
        // Under Miri the harness does not look into the buffers behind the allocator's back
        // (that would itself violate the aliasing model): no shadow copies, no write log.
        let (lp, ll) = if cfg!(miri) { (lp, 0) } else { (lp, ll) };
        if !cfg!(miri) {
            unsafe {
                world.attach(
                    cfg.frames,
                    std::slice::from_raw_parts(lp, ll),
                    std::slice::from_raw_parts(tp, tl),
                    std::slice::from_raw_parts(cp, cl),
                );
            }
        }
        if crash_on {
            let mut c = Crash::new(cfg.clone(), self.side.clone().unwrap());
            c.destructive = true;
            world.crash = Some(Box::new(c));
        }
        let shared = Shared::new(world);
        let ctx = ThreadCtx {
            tid: 0,
            shared: &shared,
        };
        let model = if cfg.alloc_all {
            Model::new_alloc(cfg.frames)
        } else {
            Model::new_free(cfg.frames)
        };
        let mut run = Run {
            ledger: Ledger::new(cfg.frames, cfg.alloc_all),
            cfg,
            profile,
            alloc,
            model,
            shared: &shared,
            props: self.props,
            out: Vec::new(),
            foreign: None,
            history: Vec::new(),
            stats: SeqStats::default(),
            hasher: Hasher::default(),
            lower_ptr: lp,
            lower_len: ll,
            lower_shadow: unsafe { std::slice::from_raw_parts(lp, ll) }.to_vec(),
            calls_since_full: 0,
            vrng: Rng::new(0x5eed),
            stop: false,
            crash_on,
            light: false,
            twin: None,
            side: self.side.clone(),
        };
        // initial state must agree with the model
        {
            let cmp = masked(|| guarded(|| compare_frames(&run.alloc, &run.model)));
            if let Ok(Some((f, got, want))) = cmp {
                run.report(
                    Violation::new(
                        "C06",
                        "init-frame-state",
                        format!(
                            "after init {:?}: frame {f} free={got}, model free={want}",
                            run.cfg
                        ),
                    ),
                    true,
                );
            }
            if run.props.has(4) || run.props.has(6) {
                let mut v = Vec::new();
                masked(|| check_views(&run.alloc, &run.model, &mut run.vrng, &mut v));
                for mut x in v {
                    x.detail = format!("right after init: {}", x.detail);
                    x.prop = if run.props.has(6) { "C06" } else { "C04" };
                    run.report(x, false);
                }
            }
        }
        enter(&ctx);
        if let Some((rng, n)) = generate.as_mut() {
            let warm_at = if run.profile.warm {
                rng.below((*n).max(1))
            } else {
                usize::MAX
            };
            for i in 0..*n {
                if run.stop {
                    break;
                }
                let step = if i == warm_at {
                    Step::Warm
                } else {
                    run.gen_step(rng)
                };
                case.steps.push(step.clone());
                run.do_step(&step);
            }
        } else {
            for step in &case.steps {
                if run.stop {
                    break;
                }
                run.do_step(step);
            }
        }
        leave();
        let mut w = shared.lock();
        run.stats.steps = w.steps;
        run.stats.persist_writes = w.persist_writes;
        if let Some(c) = w.crash.take() {
            run.stats.crash_points = c.points;
            run.stats.crash_inflight = c.points_inflight;
            run.stats.crash_in_split = c.points_in_split;
            for v in c.violations {
                if self.props.has(5) {
                    run.out.push(v);
                }
            }
        }
        res.state_hashes = std::mem::take(&mut w.state_hashes);
        drop(w);
        res.violations = run.out;
        res.foreign = run.foreign;
        res.hash = run.hasher.finish();
        res.history = run.history;
        res.stats = run.stats;
        res
    }
}

/// Generate the case parameters (everything but the steps) for run `seed`
pub fn gen_case(rng: &mut Rng, profile: &Profile) -> (SeqCase, usize) {
    let cfg = gen_config(rng, profile);
    let n = rng.range(profile.min_steps, profile.max_steps);
    (
        SeqCase {
            profile: profile.name.to_string(),
            cfg,
            at_end: rng.chance(1, 2),
            lower_fill: if rng.chance(1, 2) {
                0
            } else {
                rng.below(256) as u8
            },
            steps: Vec::new(),
        },
        n,
    )
}
