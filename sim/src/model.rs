//! Reference model: frame ownership only. No counters, no placement, no concurrency.
//! Semantics are taken from the property statements, not from the implementation.

use std::collections::BTreeSet;

pub use llfree::{HUGE_FRAMES, HUGE_ORDER, TREE_FRAMES, TREE_HUGE, TREE_ORDER};

#[derive(Clone, Copy, Debug, PartialEq, Eq, PartialOrd, Ord, Hash)]
pub struct Block {
    pub frame: usize,
    pub order: usize,
}
impl Block {
    pub fn new(frame: usize, order: usize) -> Self {
        Self { frame, order }
    }
    pub fn len(&self) -> usize {
        1 << self.order
    }
    pub fn end(&self) -> usize {
        self.frame + self.len()
    }
    pub fn overlaps(&self, o: &Block) -> bool {
        self.frame < o.end() && o.frame < self.end()
    }
    pub fn contains(&self, o: &Block) -> bool {
        self.frame <= o.frame && o.end() <= self.end()
    }
    pub fn tree(&self) -> usize {
        self.frame / TREE_FRAMES
    }
    /// Buddy decomposition of `self` minus the aligned sub-block `sub`
    pub fn minus(&self, sub: &Block) -> Vec<Block> {
        debug_assert!(self.contains(sub));
        let mut out = Vec::new();
        let mut cur = *self;
        while cur.order > sub.order {
            let half = Block::new(cur.frame, cur.order - 1);
            let other = Block::new(cur.frame + half.len(), cur.order - 1);
            if half.contains(sub) {
                out.push(other);
                cur = half;
            } else {
                out.push(half);
                cur = other;
            }
        }
        out
    }
}

#[derive(Clone, Debug)]
pub struct Model {
    pub frames: usize,
    /// per frame: allocated
    pub alloc: Vec<bool>,
    /// per huge frame: allocated as a whole (huge marker)
    pub whole: Vec<bool>,
    /// offline trees
    pub offline: BTreeSet<usize>,
}

#[derive(Clone, Copy, Debug, PartialEq, Eq)]
pub enum PutVerdict {
    Ok,
    /// the call must fail, nothing changes
    Fail,
}

impl Model {
    pub fn new_free(frames: usize) -> Self {
        Self {
            frames,
            alloc: vec![false; frames],
            whole: vec![false; frames.div_ceil(HUGE_FRAMES)],
            offline: BTreeSet::new(),
        }
    }
    /// AllocAll: every complete huge frame is whole, the remainder individually allocated
    pub fn new_alloc(frames: usize) -> Self {
        let mut m = Self::new_free(frames);
        m.alloc.iter_mut().for_each(|a| *a = true);
        for h in 0..frames / HUGE_FRAMES {
            m.whole[h] = true;
        }
        m
    }
    pub fn trees(&self) -> usize {
        self.frames.div_ceil(TREE_FRAMES)
    }
    pub fn huges(&self) -> usize {
        self.frames.div_ceil(HUGE_FRAMES)
    }
    /// number of managed frames in tree `t`
    pub fn tree_len(&self, t: usize) -> usize {
        (self.frames.saturating_sub(t * TREE_FRAMES)).min(TREE_FRAMES)
    }
    pub fn huge_len(&self, h: usize) -> usize {
        (self.frames.saturating_sub(h * HUGE_FRAMES)).min(HUGE_FRAMES)
    }
    pub fn in_range(&self, b: &Block) -> bool {
        b.end() <= self.frames
    }
    pub fn aligned(b: &Block) -> bool {
        b.frame % b.len() == 0
    }
    pub fn is_free_block(&self, b: &Block) -> bool {
        self.in_range(b) && self.alloc[b.frame..b.end()].iter().all(|a| !a)
    }
    pub fn is_alloc_block(&self, b: &Block) -> bool {
        self.in_range(b) && self.alloc[b.frame..b.end()].iter().all(|a| *a)
    }
    pub fn block_offline(&self, b: &Block) -> bool {
        let last = (b.end() - 1) / TREE_FRAMES;
        (b.tree()..=last).any(|t| self.offline.contains(&t))
    }
    /// May a (targeted or untargeted) allocation legitimately return this block?
    pub fn get_allowed(&self, b: &Block) -> bool {
        Self::aligned(b) && self.is_free_block(b) && !self.block_offline(b)
    }
    pub fn apply_get(&mut self, b: &Block) {
        for a in &mut self.alloc[b.frame..b.end()] {
            *a = true;
        }
        if b.order >= HUGE_ORDER {
            for h in b.frame / HUGE_FRAMES..b.end() / HUGE_FRAMES {
                self.whole[h] = true;
            }
        }
    }
    /// Verdict for a free with valid arguments (aligned, in range)
    pub fn put_verdict(&self, b: &Block) -> PutVerdict {
        if b.order >= HUGE_ORDER {
            let ok = (b.frame / HUGE_FRAMES..b.end() / HUGE_FRAMES).all(|h| self.whole[h]);
            if ok { PutVerdict::Ok } else { PutVerdict::Fail }
        } else if self.is_alloc_block(b) {
            PutVerdict::Ok
        } else {
            PutVerdict::Fail
        }
    }
    pub fn apply_put(&mut self, b: &Block) {
        if b.order >= HUGE_ORDER {
            for h in b.frame / HUGE_FRAMES..b.end() / HUGE_FRAMES {
                self.whole[h] = false;
            }
        } else {
            // splits a whole huge frame
            self.whole[b.frame / HUGE_FRAMES] = false;
        }
        for a in &mut self.alloc[b.frame..b.end()] {
            *a = false;
        }
    }

    // ---- derived views ----
    pub fn free_frames(&self) -> usize {
        self.alloc.iter().filter(|a| !**a).count()
    }
    pub fn huge_free(&self, h: usize) -> usize {
        let s = h * HUGE_FRAMES;
        let e = (s + HUGE_FRAMES).min(self.frames);
        if s >= e {
            return 0;
        }
        self.alloc[s..e].iter().filter(|a| !**a).count()
    }
    pub fn tree_free(&self, t: usize) -> usize {
        let s = t * TREE_FRAMES;
        let e = (s + TREE_FRAMES).min(self.frames);
        if s >= e {
            return 0;
        }
        self.alloc[s..e].iter().filter(|a| !**a).count()
    }
    /// entirely free, complete huge frames
    pub fn free_huge(&self) -> usize {
        (0..self.huges())
            .filter(|&h| self.huge_free(h) == HUGE_FRAMES)
            .count()
    }
    /// entirely free, complete trees
    pub fn free_trees(&self) -> usize {
        (0..self.trees())
            .filter(|&t| self.tree_free(t) == TREE_FRAMES)
            .count()
    }
    /// free frames in offline trees
    pub fn offline_free(&self) -> usize {
        self.offline.iter().map(|&t| self.tree_free(t)).sum()
    }
    /// free frames outside offline trees
    pub fn online_free(&self) -> usize {
        self.free_frames() - self.offline_free()
    }
    /// Is there an aligned, entirely free block of `order` inside tree `t`?
    pub fn tree_has_free_block(&self, t: usize, order: usize) -> bool {
        let s = t * TREE_FRAMES;
        let e = (s + TREE_FRAMES).min(self.frames);
        let len = 1usize << order;
        let mut f = s;
        while f + len <= e {
            if self.alloc[f..f + len].iter().all(|a| !a) {
                return true;
            }
            f += len;
        }
        false
    }
    /// all allocated maximal aligned runs as blocks (for debugging / samples)
    pub fn count_alloc(&self) -> usize {
        self.frames - self.free_frames()
    }
}
