//! Oracles shared by the sequential and concurrent harnesses:
//! comparison of every observable view of the allocator with the reference model.

use llfree::{Alloc, Class, FrameId, LLFree, Policy};

use crate::exec::{Config, Outcome, guarded, panic_signature};
use crate::model::{Block, HUGE_FRAMES, HUGE_ORDER, Model, TREE_FRAMES, TREE_ORDER};
use crate::rng::Rng;

#[derive(Clone, Debug, PartialEq, Eq)]
pub struct Violation {
    pub prop: &'static str,
    /// discriminating signature (stable across seeds for the same defect)
    pub sig: String,
    pub detail: String,
}
impl Violation {
    pub fn new(prop: &'static str, sig: impl Into<String>, detail: impl Into<String>) -> Self {
        Self {
            prop,
            sig: sig.into(),
            detail: detail.into(),
        }
    }
}

/// Bit set of property numbers (C01 = bit 1 ...)
#[derive(Clone, Copy, Debug, PartialEq, Eq)]
pub struct Props(pub u32);
impl Props {
    pub fn of(ids: &[u32]) -> Self {
        Self(ids.iter().fold(0, |a, i| a | (1 << i)))
    }
    pub fn has(self, i: u32) -> bool {
        self.0 & (1 << i) != 0
    }
    pub fn id(name: &str) -> u32 {
        name.trim_start_matches('C').parse().unwrap_or(0)
    }
}

/// Per-frame comparison of the allocator's base-order view with the model (C02).
/// Returns the first differing frame.
pub fn compare_frames(alloc: &LLFree, model: &Model) -> Option<(usize, bool, bool)> {
    for f in 0..model.frames {
        let free = alloc.stats_at(FrameId(f), 0).free_frames == 1;
        if free == model.alloc[f] {
            return Some((f, free, !model.alloc[f]));
        }
    }
    None
}

/// Per-frame allocation bitmap as seen through the public API
pub fn frame_bitmap(alloc: &LLFree, frames: usize) -> Vec<bool> {
    (0..frames)
        .map(|f| alloc.stats_at(FrameId(f), 0).free_frames == 0)
        .collect()
}

/// C04: all accounting views against the model, at a quiescent point.
pub fn check_views(alloc: &LLFree, model: &Model, rng: &mut Rng, out: &mut Vec<Violation>) {
    let r = guarded(|| {
        let mut v = Vec::new();
        let s = alloc.stats();
        if s.free_frames != model.free_frames() {
            v.push(Violation::new(
                "C04",
                "exact-free-frames",
                format!(
                    "stats().free_frames={} model={}",
                    s.free_frames,
                    model.free_frames()
                ),
            ));
        }
        if s.free_huge != model.free_huge() {
            v.push(Violation::new(
                "C04",
                "exact-free-huge",
                format!(
                    "stats().free_huge={} model={}",
                    s.free_huge,
                    model.free_huge()
                ),
            ));
        }
        if s.free_trees != model.free_trees() {
            v.push(Violation::new(
                "C04",
                "exact-free-trees",
                format!(
                    "stats().free_trees={} model={}",
                    s.free_trees,
                    model.free_trees()
                ),
            ));
        }
        for h in 0..model.huges() {
            let got = alloc.stats_at(FrameId(h * HUGE_FRAMES), HUGE_ORDER);
            let want = model.huge_free(h);
            if got.free_frames != want || got.free_huge != (want == HUGE_FRAMES) as usize {
                v.push(Violation::new(
                    "C04",
                    "per-huge-free",
                    format!("stats_at(huge {h}) = {got:?}, model free={want}"),
                ));
                break;
            }
        }
        for t in 0..model.trees() {
            let got = alloc.stats_at(FrameId(t * TREE_FRAMES), TREE_ORDER);
            let want = model.tree_free(t);
            if got.free_frames != want {
                v.push(Violation::new(
                    "C04",
                    "per-tree-free",
                    format!("stats_at(tree {t}) = {got:?}, model free={want}"),
                ));
                break;
            }
        }
        let fast = alloc.tree_stats().free_frames;
        let want = model.free_frames() - model.offline_free();
        if fast != want {
            v.push(Violation::new(
                "C04",
                "fast-free-frames",
                format!(
                    "tree_stats().free_frames={fast}, exact {} - offline {} = {want}",
                    model.free_frames(),
                    model.offline_free()
                ),
            ));
        }
        // sampled is_free queries
        if model.frames > 0 {
            for _ in 0..16 {
                let order = rng.below(TREE_ORDER + 1);
                let len = 1usize << order;
                if len > model.frames {
                    continue;
                }
                let f = rng.below(model.frames / len) * len;
                let b = Block::new(f, order);
                let got = alloc.lower.is_free(FrameId(f), order);
                let want = model.is_free_block(&b);
                if got != want {
                    v.push(Violation::new(
                        "C04",
                        "is-free-query",
                        format!("lower.is_free({f}, {order}) = {got}, model = {want}"),
                    ));
                    break;
                }
            }
        }
        v
    });
    match r {
        Ok(v) => out.extend(v),
        Err(Outcome::Panic { msg, loc }) => out.push(Violation::new(
            "C04",
            format!("query-{}", panic_signature(&msg, &loc)),
            format!("a statistics query panicked: {msg} at {loc}"),
        )),
        Err(_) => {}
    }
    if model.offline.is_empty() {
        if let Err(Outcome::Panic { msg, loc }) = guarded(|| alloc.validate()) {
            out.push(Violation::new(
                "C04",
                format!("validate-{}", panic_signature(&msg, &loc)),
                format!("validate() panicked: {msg} at {loc}"),
            ));
        }
    }
}

/// C14: per class sums
pub fn check_class_sums(alloc: &LLFree, cfg: &Config, out: &mut Vec<Violation>) {
    let Ok(ts) = guarded(|| alloc.tree_stats()) else {
        return;
    };
    let total: usize = ts
        .classes
        .iter()
        .map(|c| c.free_frames + c.alloc_frames)
        .sum();
    let free: usize = ts.classes.iter().map(|c| c.free_frames).sum();
    let want = cfg.trees() * TREE_FRAMES;
    if total != want {
        // discriminating fact: how far off, relative to the frames held in local reservations
        let excess = total as i64 - want as i64;
        let global = guarded(|| alloc.trees.stats().free_frames).unwrap_or(0);
        let local_free = ts.free_frames as i64 - global as i64;
        let kind = if excess == local_free && local_free > 0 {
            "excess-equals-reserved-local-free".to_string()
        } else {
            format!("other-excess")
        };
        out.push(Violation::new(
            "C14",
            format!("class-total:{kind}"),
            format!(
                "sum(free+alloc)={total} != trees*TREE_FRAMES={want} (excess {excess}, frames in local reservations {local_free})"
            ),
        ));
    }
    if free != ts.free_frames {
        out.push(Violation::new(
            "C14",
            "class-free-sum",
            format!(
                "sum(free_c)={free} != tree_stats().free_frames={}",
                ts.free_frames
            ),
        ));
    }
}

/// C13: is `got` a class the policy permits for a request of `req`?
pub fn class_permitted(cfg: &Config, req: u8, got: u8, order: usize) -> bool {
    if got == req {
        return true;
    }
    if !cfg.class_ok(got) {
        return false;
    }
    let policy = cfg.kind.policy();
    let xs = [
        1usize << order,
        (TREE_FRAMES / 64).max(1),
        TREE_FRAMES / 2,
        TREE_FRAMES - 1,
        TREE_FRAMES,
    ];
    xs.iter().any(|&x| {
        matches!(
            policy(Class(req), Class(got), x),
            Policy::Match(_) | Policy::Steal
        )
    })
}

/// Snapshot of the volatile tree array as (class, free, reserved)
pub fn tree_snapshot(alloc: &LLFree, trees: usize) -> Vec<(u8, usize, bool)> {
    (0..trees)
        .map(|t| {
            let (c, f, r) = alloc.trees.stats_at(llfree::TreeId(t));
            (c.0, f, r)
        })
        .collect()
}
