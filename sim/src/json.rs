//! Minimal JSON value with writer and parser (no external dependencies).

use std::collections::BTreeMap;
use std::fmt::Write;

#[derive(Clone, Debug, PartialEq, Default)]
pub enum J {
    #[default]
    Null,
    Bool(bool),
    Int(i128),
    Float(f64),
    Str(String),
    Arr(Vec<J>),
    Obj(BTreeMap<String, J>),
}

impl J {
    pub fn obj() -> J {
        J::Obj(BTreeMap::new())
    }
    pub fn set(mut self, k: &str, v: impl Into<J>) -> J {
        if let J::Obj(m) = &mut self {
            m.insert(k.to_string(), v.into());
        }
        self
    }
    pub fn put(&mut self, k: &str, v: impl Into<J>) {
        if let J::Obj(m) = self {
            m.insert(k.to_string(), v.into());
        }
    }
    pub fn get(&self, k: &str) -> Option<&J> {
        match self {
            J::Obj(m) => m.get(k),
            _ => None,
        }
    }
    pub fn u(&self) -> Option<u64> {
        match self {
            J::Int(i) => Some(*i as u64),
            J::Float(f) => Some(*f as u64),
            _ => None,
        }
    }
    pub fn i(&self) -> Option<i64> {
        match self {
            J::Int(i) => Some(*i as i64),
            _ => None,
        }
    }
    pub fn f(&self) -> Option<f64> {
        match self {
            J::Int(i) => Some(*i as f64),
            J::Float(f) => Some(*f),
            _ => None,
        }
    }
    pub fn s(&self) -> Option<&str> {
        match self {
            J::Str(s) => Some(s),
            _ => None,
        }
    }
    pub fn b(&self) -> Option<bool> {
        match self {
            J::Bool(b) => Some(*b),
            _ => None,
        }
    }
    pub fn arr(&self) -> Option<&Vec<J>> {
        match self {
            J::Arr(a) => Some(a),
            _ => None,
        }
    }
    pub fn gu(&self, k: &str) -> u64 {
        self.get(k).and_then(J::u).unwrap_or(0)
    }
    pub fn gs(&self, k: &str) -> &str {
        self.get(k).and_then(J::s).unwrap_or("")
    }
    pub fn garr(&self, k: &str) -> &[J] {
        self.get(k)
            .and_then(J::arr)
            .map(|v| v.as_slice())
            .unwrap_or(&[])
    }

    pub fn to_string(&self) -> String {
        let mut s = String::new();
        self.write(&mut s, None, 0);
        s
    }
    pub fn to_pretty(&self) -> String {
        let mut s = String::new();
        self.write(&mut s, Some(1), 0);
        s.push('\n');
        s
    }
    fn write(&self, out: &mut String, indent: Option<usize>, level: usize) {
        let nl = |out: &mut String, level: usize| {
            if let Some(n) = indent {
                out.push('\n');
                for _ in 0..n * level {
                    out.push(' ');
                }
            }
        };
        match self {
            J::Null => out.push_str("null"),
            J::Bool(b) => out.push_str(if *b { "true" } else { "false" }),
            J::Int(i) => write!(out, "{i}").unwrap(),
            J::Float(f) => {
                if f.is_finite() {
                    if f.fract() == 0.0 && f.abs() < 1e15 {
                        write!(out, "{f:.1}").unwrap()
                    } else {
                        write!(out, "{f}").unwrap()
                    }
                } else {
                    out.push_str("null")
                }
            }
            J::Str(s) => write_str(out, s),
            J::Arr(a) => {
                // short scalar arrays on one line
                let scalar = a.iter().all(|x| !matches!(x, J::Arr(_) | J::Obj(_)));
                out.push('[');
                for (i, x) in a.iter().enumerate() {
                    if i > 0 {
                        out.push(',');
                        if scalar && indent.is_some() {
                            out.push(' ');
                        }
                    }
                    if !scalar {
                        nl(out, level + 1);
                    }
                    x.write(out, indent, level + 1);
                }
                if !scalar && !a.is_empty() {
                    nl(out, level);
                }
                out.push(']');
            }
            J::Obj(m) => {
                out.push('{');
                for (i, (k, v)) in m.iter().enumerate() {
                    if i > 0 {
                        out.push(',');
                    }
                    nl(out, level + 1);
                    write_str(out, k);
                    out.push(':');
                    if indent.is_some() {
                        out.push(' ');
                    }
                    v.write(out, indent, level + 1);
                }
                if !m.is_empty() {
                    nl(out, level);
                }
                out.push('}');
            }
        }
    }

    pub fn parse(s: &str) -> Result<J, String> {
        let mut p = Parser {
            b: s.as_bytes(),
            i: 0,
        };
        let v = p.value()?;
        p.ws();
        if p.i != p.b.len() {
            return Err(format!("trailing data at {}", p.i));
        }
        Ok(v)
    }
}

fn write_str(out: &mut String, s: &str) {
    out.push('"');
    for c in s.chars() {
        match c {
            '"' => out.push_str("\\\""),
            '\\' => out.push_str("\\\\"),
            '\n' => out.push_str("\\n"),
            '\r' => out.push_str("\\r"),
            '\t' => out.push_str("\\t"),
            c if (c as u32) < 0x20 => write!(out, "\\u{:04x}", c as u32).unwrap(),
            c => out.push(c),
        }
    }
    out.push('"');
}

struct Parser<'a> {
    b: &'a [u8],
    i: usize,
}
impl Parser<'_> {
    fn ws(&mut self) {
        while self.i < self.b.len() && (self.b[self.i] as char).is_ascii_whitespace() {
            self.i += 1;
        }
    }
    fn value(&mut self) -> Result<J, String> {
        self.ws();
        let Some(&c) = self.b.get(self.i) else {
            return Err("eof".into());
        };
        match c {
            b'{' => {
                self.i += 1;
                let mut m = BTreeMap::new();
                loop {
                    self.ws();
                    if self.b.get(self.i) == Some(&b'}') {
                        self.i += 1;
                        break;
                    }
                    let k = match self.value()? {
                        J::Str(s) => s,
                        _ => return Err("key".into()),
                    };
                    self.ws();
                    if self.b.get(self.i) != Some(&b':') {
                        return Err(format!("expected : at {}", self.i));
                    }
                    self.i += 1;
                    let v = self.value()?;
                    m.insert(k, v);
                    self.ws();
                    match self.b.get(self.i) {
                        Some(b',') => self.i += 1,
                        Some(b'}') => {
                            self.i += 1;
                            break;
                        }
                        _ => return Err(format!("expected , or }} at {}", self.i)),
                    }
                }
                Ok(J::Obj(m))
            }
            b'[' => {
                self.i += 1;
                let mut a = Vec::new();
                loop {
                    self.ws();
                    if self.b.get(self.i) == Some(&b']') {
                        self.i += 1;
                        break;
                    }
                    a.push(self.value()?);
                    self.ws();
                    match self.b.get(self.i) {
                        Some(b',') => self.i += 1,
                        Some(b']') => {
                            self.i += 1;
                            break;
                        }
                        _ => return Err(format!("expected , or ] at {}", self.i)),
                    }
                }
                Ok(J::Arr(a))
            }
            b'"' => {
                self.i += 1;
                let mut s = String::new();
                loop {
                    let Some(&c) = self.b.get(self.i) else {
                        return Err("eof in string".into());
                    };
                    self.i += 1;
                    match c {
                        b'"' => break,
                        b'\\' => {
                            let Some(&e) = self.b.get(self.i) else {
                                return Err("eof in escape".into());
                            };
                            self.i += 1;
                            match e {
                                b'n' => s.push('\n'),
                                b'r' => s.push('\r'),
                                b't' => s.push('\t'),
                                b'b' => s.push('\u{8}'),
                                b'f' => s.push('\u{c}'),
                                b'u' => {
                                    let h = std::str::from_utf8(&self.b[self.i..self.i + 4])
                                        .map_err(|e| e.to_string())?;
                                    let v =
                                        u32::from_str_radix(h, 16).map_err(|e| e.to_string())?;
                                    s.push(char::from_u32(v).unwrap_or('?'));
                                    self.i += 4;
                                }
                                e => s.push(e as char),
                            }
                        }
                        c => {
                            // copy raw utf8 bytes
                            let start = self.i - 1;
                            let mut end = self.i;
                            if c >= 0x80 {
                                while end < self.b.len() && (self.b[end] & 0xc0) == 0x80 {
                                    end += 1;
                                }
                            }
                            s.push_str(
                                std::str::from_utf8(&self.b[start..end])
                                    .map_err(|e| e.to_string())?,
                            );
                            self.i = end;
                        }
                    }
                }
                Ok(J::Str(s))
            }
            b't' if self.b[self.i..].starts_with(b"true") => {
                self.i += 4;
                Ok(J::Bool(true))
            }
            b'f' if self.b[self.i..].starts_with(b"false") => {
                self.i += 5;
                Ok(J::Bool(false))
            }
            b'n' if self.b[self.i..].starts_with(b"null") => {
                self.i += 4;
                Ok(J::Null)
            }
            _ => {
                let start = self.i;
                while self.i < self.b.len()
                    && matches!(
                        self.b[self.i],
                        b'-' | b'+' | b'.' | b'e' | b'E' | b'0'..=b'9'
                    )
                {
                    self.i += 1;
                }
                let t = std::str::from_utf8(&self.b[start..self.i]).unwrap();
                if let Ok(i) = t.parse::<i128>() {
                    Ok(J::Int(i))
                } else if let Ok(f) = t.parse::<f64>() {
                    Ok(J::Float(f))
                } else {
                    Err(format!("bad token at {start}: {t:?}"))
                }
            }
        }
    }
}

impl From<bool> for J {
    fn from(v: bool) -> Self {
        J::Bool(v)
    }
}
impl From<u64> for J {
    fn from(v: u64) -> Self {
        J::Int(v as i128)
    }
}
impl From<u32> for J {
    fn from(v: u32) -> Self {
        J::Int(v as i128)
    }
}
impl From<u8> for J {
    fn from(v: u8) -> Self {
        J::Int(v as i128)
    }
}
impl From<usize> for J {
    fn from(v: usize) -> Self {
        J::Int(v as i128)
    }
}
impl From<i64> for J {
    fn from(v: i64) -> Self {
        J::Int(v as i128)
    }
}
impl From<i32> for J {
    fn from(v: i32) -> Self {
        J::Int(v as i128)
    }
}
impl From<f64> for J {
    fn from(v: f64) -> Self {
        J::Float(v)
    }
}
impl From<&str> for J {
    fn from(v: &str) -> Self {
        J::Str(v.to_string())
    }
}
impl From<String> for J {
    fn from(v: String) -> Self {
        J::Str(v)
    }
}
impl<T: Into<J>> From<Vec<T>> for J {
    fn from(v: Vec<T>) -> Self {
        J::Arr(v.into_iter().map(Into::into).collect())
    }
}
impl<T: Into<J>> From<Option<T>> for J {
    fn from(v: Option<T>) -> Self {
        match v {
            Some(v) => v.into(),
            None => J::Null,
        }
    }
}
