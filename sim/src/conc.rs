//! Concurrent harness: 2-3 simulated caller threads under the token scheduler.
//! Serves C01 C03 C04 C05 C10 C13 C15 C21 (families K1-K6).

use std::sync::Arc;

use llfree::LLFree;

use crate::crash::Crash;
use crate::exec::{
    Arenas, Call, ClassKind, Config, ErrKind, Outcome, create, exec, guarded, panic_signature,
};
use crate::json::J;
use crate::model::{Block, HUGE_FRAMES, HUGE_ORDER, Model, TREE_FRAMES, TREE_HUGE, TREE_ORDER};
use crate::oracle::{Props, Violation, check_views, class_permitted, compare_frames, tree_snapshot};
use crate::rng::{Hasher, Rng};
use crate::world::{AbortReason, Probes, Shared, Strategy, ThreadCtx, World, enter, leave, masked};

/// Symbolic operation of a simulated thread: stays executable under any schedule and shrinking
#[derive(Clone, Debug, PartialEq)]
pub enum SOp {
    Get {
        order: usize,
        class: u8,
        slot: Option<usize>,
        target: Option<usize>,
    },
    /// free my k-th currently held block, or the `idx`-th aligned part of order `sub.0` of it
    PutHeld {
        k: usize,
        sub: Option<(usize, usize)>,
        class: u8,
        slot: Option<usize>,
    },
    Drain,
    /// class change of a tree (by id or by class match)
    Reclass {
        id: Option<usize>,
        mclass: Option<u8>,
        mfree: usize,
        class: u8,
    },
    /// take tree `tree` offline if it is entirely free
    Offline {
        tree: usize,
    },
    /// bring the tree this thread took offline back online
    OnlineOwn {
        class: Option<u8>,
    },
}

fn opt_u(j: Option<&J>) -> Option<usize> {
    j.and_then(J::u).map(|x| x as usize)
}

impl SOp {
    pub fn to_json(&self) -> J {
        match self {
            SOp::Get {
                order,
                class,
                slot,
                target,
            } => J::obj()
                .set("op", "get")
                .set("order", *order)
                .set("class", *class)
                .set("slot", *slot)
                .set("target", *target),
            SOp::PutHeld {
                k,
                sub,
                class,
                slot,
            } => J::obj()
                .set("op", "put_held")
                .set("k", *k)
                .set("sub_order", sub.map(|s| s.0))
                .set("sub_idx", sub.map(|s| s.1))
                .set("class", *class)
                .set("slot", *slot),
            SOp::Drain => J::obj().set("op", "drain"),
            SOp::Reclass {
                id,
                mclass,
                mfree,
                class,
            } => J::obj()
                .set("op", "reclass")
                .set("id", *id)
                .set("mclass", *mclass)
                .set("mfree", *mfree)
                .set("class", *class),
            SOp::Offline { tree } => J::obj().set("op", "offline").set("tree", *tree),
            SOp::OnlineOwn { class } => J::obj().set("op", "online_own").set("class", *class),
        }
    }
    pub fn from_json(j: &J) -> Option<Self> {
        Some(match j.gs("op") {
            "get" => SOp::Get {
                order: j.gu("order") as usize,
                class: j.gu("class") as u8,
                slot: opt_u(j.get("slot")),
                target: opt_u(j.get("target")),
            },
            "put_held" => SOp::PutHeld {
                k: j.gu("k") as usize,
                sub: opt_u(j.get("sub_order")).map(|o| (o, j.gu("sub_idx") as usize)),
                class: j.gu("class") as u8,
                slot: opt_u(j.get("slot")),
            },
            "drain" => SOp::Drain,
            "reclass" => SOp::Reclass {
                id: opt_u(j.get("id")),
                mclass: opt_u(j.get("mclass")).map(|x| x as u8),
                mfree: j.gu("mfree") as usize,
                class: j.gu("class") as u8,
            },
            "offline" => SOp::Offline {
                tree: j.gu("tree") as usize,
            },
            "online_own" => SOp::OnlineOwn {
                class: opt_u(j.get("class")).map(|x| x as u8),
            },
            _ => return None,
        })
    }
}

/// Hand parts of the k-th environment-held block (frame order) to threads
#[derive(Clone, Debug, PartialEq)]
pub struct Deal {
    pub k: usize,
    pub order: usize,
    /// (part index, thread)
    pub parts: Vec<(usize, usize)>,
}

#[derive(Clone, Debug, PartialEq)]
pub struct ConcCase {
    pub kind: String,
    pub cfg: Config,
    pub at_end: bool,
    pub lower_fill: u8,
    pub setup: Vec<Call>,
    pub deals: Vec<Deal>,
    pub programs: Vec<Vec<SOp>>,
    pub strategy: Strategy,
    pub sched_seed: u64,
    /// explicit schedule (replay); empty = draw from strategy
    pub schedule: Vec<u8>,
    /// 0 = off, else probability 1/den per update-CAS
    pub casfail_den: usize,
    /// explicit spurious CAS failures (replay): step numbers
    pub casfail_at: Option<Vec<u64>>,
    /// (step, thread): run the thread's current call alone from this step
    pub solo: Vec<(u64, usize)>,
    /// final drain-then-probe (C10)
    pub final_probes: Vec<(usize, usize, u8)>,
    /// C21: after the base run, re-execute it with a solo window at every (step, thread)
    pub solo_sweep: bool,
    /// strategy that takes over when the explicit schedule is used up (evolved cases:
    /// recorded prefix + seeded tail); None = stay on the current thread
    pub tail: Option<Strategy>,
    /// after the base run, enumerate every PCT schedule of depth 1: each priority order of the
    /// threads x each step at which the running thread is demoted below all others
    pub pct_sweep: bool,
    /// explicit initial PCT priorities (sweep runs); empty = shuffled from the schedule seed
    pub prio: Vec<u32>,
}

fn strategy_to_json(s: &Strategy) -> J {
    match s {
        Strategy::Uniform => J::obj().set("kind", "uniform"),
        Strategy::Pct { change } => J::obj().set("kind", "pct").set("change", change.clone()),
        Strategy::Burst { den } => J::obj().set("kind", "burst").set("den", *den),
        Strategy::AfterWrite { den } => J::obj().set("kind", "after_write").set("den", *den),
        Strategy::Stall { tid, from, len } => J::obj()
            .set("kind", "stall")
            .set("tid", *tid)
            .set("from", *from)
            .set("len", *len),
        Strategy::Replay => J::obj().set("kind", "replay"),
    }
}
fn strategy_from_json(j: &J) -> Strategy {
    match j.gs("kind") {
        "pct" => Strategy::Pct {
            change: j.garr("change").iter().filter_map(J::u).collect(),
        },
        "burst" => Strategy::Burst {
            den: j.gu("den") as usize,
        },
        "after_write" => Strategy::AfterWrite {
            den: j.gu("den") as usize,
        },
        "stall" => Strategy::Stall {
            tid: j.gu("tid") as usize,
            from: j.gu("from"),
            len: j.gu("len"),
        },
        "replay" => Strategy::Replay,
        _ => Strategy::Uniform,
    }
}

/// run-length encode a schedule
pub fn rle(s: &[u8]) -> J {
    let mut out = Vec::new();
    let mut i = 0;
    while i < s.len() {
        let mut j = i;
        while j < s.len() && s[j] == s[i] {
            j += 1;
        }
        out.push(J::Arr(vec![J::from(s[i]), J::from(j - i)]));
        i = j;
    }
    J::Arr(out)
}
pub fn unrle(j: &[J]) -> Vec<u8> {
    let mut out = Vec::new();
    for e in j {
        if let Some(a) = e.arr()
            && a.len() == 2
        {
            let t = a[0].u().unwrap_or(0) as u8;
            for _ in 0..a[1].u().unwrap_or(0) {
                out.push(t);
            }
        }
    }
    out
}

impl ConcCase {
    pub fn to_json(&self) -> J {
        J::obj()
            .set("kind", "conc")
            .set("family", self.kind.clone())
            .set("config", self.cfg.to_json())
            .set("buffers_at_end_guard", self.at_end)
            .set("lower_fill", self.lower_fill)
            .set(
                "setup",
                J::Arr(self.setup.iter().map(Call::to_json).collect()),
            )
            .set(
                "deals",
                J::Arr(
                    self.deals
                        .iter()
                        .map(|d| {
                            J::obj().set("k", d.k).set("order", d.order).set(
                                "parts",
                                J::Arr(
                                    d.parts
                                        .iter()
                                        .map(|p| J::Arr(vec![J::from(p.0), J::from(p.1)]))
                                        .collect(),
                                ),
                            )
                        })
                        .collect(),
                ),
            )
            .set(
                "programs",
                J::Arr(
                    self.programs
                        .iter()
                        .map(|p| J::Arr(p.iter().map(SOp::to_json).collect()))
                        .collect(),
                ),
            )
            .set("strategy", strategy_to_json(&self.strategy))
            .set("sched_seed", self.sched_seed)
            .set("schedule_rle", rle(&self.schedule))
            .set(
                "faults",
                J::obj()
                    .set("casfail_den", self.casfail_den)
                    .set("casfail_at", self.casfail_at.clone())
                    .set(
                        "solo",
                        J::Arr(
                            self.solo
                                .iter()
                                .map(|p| J::Arr(vec![J::from(p.0), J::from(p.1)]))
                                .collect(),
                        ),
                    ),
            )
            .set(
                "final_probes",
                J::Arr(
                    self.final_probes
                        .iter()
                        .map(|p| J::Arr(vec![J::from(p.0), J::from(p.1), J::from(p.2)]))
                        .collect(),
                ),
            )
            .set("solo_sweep", self.solo_sweep)
            .set("pct_sweep", self.pct_sweep)
            .set("pct_priorities", J::Arr(self.prio.iter().map(|p| J::from(*p)).collect()))
            .set("tail_strategy", self.tail.as_ref().map(strategy_to_json))
    }
    pub fn from_json(j: &J) -> Option<Self> {
        let pair = |e: &J| -> Option<(u64, u64)> {
            let a = e.arr()?;
            Some((a.first()?.u()?, a.get(1)?.u()?))
        };
        let faults = j.get("faults").cloned().unwrap_or(J::obj());
        Some(Self {
            kind: j.gs("family").to_string(),
            cfg: Config::from_json(j.get("config")?),
            at_end: j.get("buffers_at_end_guard").and_then(J::b).unwrap_or(true),
            lower_fill: j.gu("lower_fill") as u8,
            setup: j.garr("setup").iter().filter_map(Call::from_json).collect(),
            deals: j
                .garr("deals")
                .iter()
                .map(|d| Deal {
                    k: d.gu("k") as usize,
                    order: d.gu("order") as usize,
                    parts: d
                        .garr("parts")
                        .iter()
                        .filter_map(pair)
                        .map(|(a, b)| (a as usize, b as usize))
                        .collect(),
                })
                .collect(),
            programs: j
                .garr("programs")
                .iter()
                .map(|p| {
                    p.arr()
                        .map(|a| a.iter().filter_map(SOp::from_json).collect())
                        .unwrap_or_default()
                })
                .collect(),
            strategy: strategy_from_json(j.get("strategy")?),
            sched_seed: j.gu("sched_seed"),
            schedule: unrle(j.garr("schedule_rle")),
            casfail_den: faults.gu("casfail_den") as usize,
            casfail_at: faults
                .get("casfail_at")
                .and_then(J::arr)
                .map(|a| a.iter().filter_map(J::u).collect()),
            solo: faults
                .garr("solo")
                .iter()
                .filter_map(pair)
                .map(|(a, b)| (a, b as usize))
                .collect(),
            final_probes: j
                .garr("final_probes")
                .iter()
                .filter_map(|e| {
                    let a = e.arr()?;
                    Some((
                        a.first()?.u()? as usize,
                        a.get(1)?.u()? as usize,
                        a.get(2)?.u()? as u8,
                    ))
                })
                .collect(),
            solo_sweep: j.get("solo_sweep").and_then(J::b).unwrap_or(false),
            tail: j
                .get("tail_strategy")
                .filter(|t| t.get("kind").is_some())
                .map(strategy_from_json),
            pct_sweep: j.get("pct_sweep").and_then(J::b).unwrap_or(false),
            prio: j
                .get("pct_priorities")
                .and_then(J::arr)
                .map(|a| a.iter().filter_map(J::u).map(|x| x as u32).collect())
                .unwrap_or_default(),
        })
    }
}

#[derive(Clone, Debug)]
pub struct CallRec {
    pub tid: usize,
    pub call: Call,
    pub invoke: u64,
    pub ret: Option<u64>,
    pub outcome: Option<Outcome>,
}

#[derive(Default, Clone, Debug)]
pub struct ConcStats {
    pub calls: u64,
    pub gets_ok: u64,
    pub gets_err: u64,
    pub puts_ok: u64,
    pub steps: u64,
    pub conflicts: u64,
    pub persist_writes: u64,
    pub crash_points: u64,
    pub crash_inflight: u64,
    pub crash_in_split: u64,
    pub offline_ok: u64,
    pub online_ok: u64,
    pub final_probes: u64,
    pub aborted: u64,
}

pub struct ConcResult {
    pub violations: Vec<Violation>,
    pub foreign: Option<Violation>,
    pub history: Vec<CallRec>,
    /// hash of (programs, effective interleaving)
    pub hash: u64,
    pub nontrivial: bool,
    pub stats: ConcStats,
    pub probes: Probes,
    pub state_hashes: Vec<u64>,
    /// recorded schedule and fired cas failures (for the replay file)
    pub schedule: Vec<u8>,
    pub casfail_log: Vec<u64>,
}

/// Harness state shared by the simulated threads (only touched by the token holder)
struct Judge {
    cfg: Config,
    props: Props,
    out: Vec<Violation>,
    foreign: Option<Violation>,
    history: Vec<CallRec>,
    /// per tree: (step at which Offline returned, owning thread)
    offline: Vec<Option<(u64, usize)>>,
    /// trees that were reserved by a slot when the threads started
    reserved: Vec<usize>,
    stats: ConcStats,
}
impl Judge {
    fn report(&mut self, v: Violation) {
        if self.props.has(Props::id(v.prop)) {
            if self.out.len() < 4 {
                self.out.push(v);
            }
        } else if self.foreign.is_none() {
            self.foreign = Some(v);
        }
    }
}

pub struct ConcRunner<'a> {
    pub arenas: &'a Arenas,
    pub side: Arc<Arenas>,
    pub props: Props,
}

fn resolve(op: &SOp, held: &[Block], cfg: &Config, my_offline: Option<usize>, reserved: &[usize]) -> Option<Call> {
    match op {
        SOp::Get {
            order,
            class,
            slot,
            target,
        } => {
            // HELD_TARGET + k: ask by number for (the start of) the k-th block this thread holds,
            // i.e. for frames that are allocated: the call must fail and change nothing
            let (target, order) = match target {
                Some(t) if *t >= HELD_TARGET => {
                    if held.is_empty() {
                        return None;
                    }
                    let b = held[(t - HELD_TARGET) % held.len()];
                    (Some(b.frame), (*order).min(b.order))
                }
                t => (*t, *order),
            };
            Some(Call::Get {
                target,
                order,
                class: *class,
                slot: *slot,
            })
        }
        SOp::PutHeld {
            k,
            sub,
            class,
            slot,
        } => {
            if held.is_empty() {
                return None;
            }
            let b = held[k % held.len()];
            let (frame, order) = match sub {
                Some((so, idx)) if *so < b.order => {
                    let parts = 1usize << (b.order - so);
                    (b.frame + (idx % parts) * (1 << so), *so)
                }
                _ => (b.frame, b.order),
            };
            Some(Call::Put {
                frame,
                order,
                class: *class,
                slot: *slot,
            })
        }
        SOp::Drain => Some(Call::Drain),
        SOp::Reclass {
            id,
            mclass,
            mfree,
            class,
        } => Some(Call::Change {
            id: *id,
            mclass: *mclass,
            mfree: *mfree,
            class: Some(*class),
            op: 0,
        }),
        SOp::Offline { tree } => {
            // OFFLINE_RESERVED + k: the k-th tree that a slot had reserved when the threads started
            let tree = &match tree.checked_sub(OFFLINE_RESERVED) {
                Some(k) if !reserved.is_empty() => reserved[k % reserved.len()],
                Some(k) => k % cfg.trees().max(1),
                None => *tree,
            };
            if my_offline.is_some() || *tree >= cfg.trees() {
                return None;
            }
            let len = cfg
                .frames
                .saturating_sub(tree * TREE_FRAMES)
                .min(TREE_FRAMES);
            Some(Call::Change {
                id: Some(*tree),
                mclass: None,
                mfree: len.max(1),
                class: None,
                op: 2,
            })
        }
        SOp::OnlineOwn { class } => my_offline.map(|t| Call::Change {
            id: Some(t),
            mclass: None,
            mfree: 0,
            class: *class,
            op: 1,
        }),
    }
}

fn thread_main(
    tid: usize,
    shared: &Shared,
    alloc: &LLFree<'static>,
    program: &[SOp],
    mut held: Vec<Block>,
    judge: &std::sync::Mutex<Judge>,
) {
    let ctx = ThreadCtx { tid, shared };
    enter(&ctx);
    shared.thread_begin(tid);
    let mut my_offline: Option<usize> = None;
    for op in program {
        if shared.lock().aborted.is_some() {
            break;
        }
        let (cfg, reserved) = {
            let j = judge.lock().unwrap();
            (j.cfg.clone(), j.reserved.clone())
        };
        let Some(call) = resolve(op, &held, &cfg, my_offline, &reserved) else {
            continue;
        };
        if !call.args_valid(&cfg) {
            continue; // threads are well-behaved
        }
        // ---- invoke ----
        let id;
        {
            let mut w = shared.lock();
            let mut j = judge.lock().unwrap();
            id = j.history.len();
            j.history.push(CallRec {
                tid,
                call: call.clone(),
                invoke: w.steps,
                ret: None,
                outcome: None,
            });
            w.cur_call[tid] = Some(id);
            w.cur_change[tid] = matches!(call, Call::Change { .. });
            if let Some(c) = w.crash.as_mut() {
                c.ledger.invoke(id, &call);
            }
            if let Call::Put { frame, order, .. } = &call {
                // the put is invoked: the block leaves my held list, the remainder stays
                let b = Block::new(*frame, *order);
                if let Some(pos) = held.iter().position(|h| h.contains(&b)) {
                    let h = held.remove(pos);
                    held.extend(h.minus(&b));
                }
            }
            if let (Call::Change { op: 1, .. }, Some(t)) = (&call, my_offline) {
                // from now on allocations from the tree are legitimate again
                j.offline[t] = None;
            }
        }
        // ---- the call itself, under the scheduler ----
        let outcome = exec(alloc, &call);
        // ---- return ----
        {
            let mut w = shared.lock();
            let w = &mut *w;
            let mut j = judge.lock().unwrap();
            w.call_end(tid);
            j.history[id].ret = Some(w.steps);
            j.history[id].outcome = Some(outcome.clone());
            j.stats.calls += 1;
            let aborted = w.aborted.is_some();
            match (&call, &outcome) {
                (_, Outcome::Panic { msg, loc }) => {
                    j.report(Violation::new(
                        "C03",
                        panic_signature(msg, loc),
                        format!("thread {tid} call #{id} {call:?} panicked: {msg} at {loc}"),
                    ));
                    if w.aborted.is_none() {
                        w.aborted = Some(AbortReason::Foreign);
                    }
                }
                (_, Outcome::Aborted) => {}
                _ if aborted => {}
                (
                    Call::Get {
                        target,
                        order,
                        class,
                        ..
                    },
                    Outcome::GetOk { frame, class: c },
                ) => {
                    j.stats.gets_ok += 1;
                    let b = Block::new(*frame, *order);
                    let mut bad = false;
                    if !Model::aligned(&b) || b.end() > cfg.frames {
                        j.report(Violation::new(
                            "C01",
                            "get-misaligned-or-out-of-range",
                            format!("thread {tid} call #{id} {call:?} returned frame {frame} (frames={})", cfg.frames),
                        ));
                        bad = true;
                    } else if target.is_some_and(|t| t != *frame) {
                        j.report(Violation::new(
                            "C01",
                            "targeted-get-other-frame",
                            format!("thread {tid} call #{id} {call:?} returned frame {frame}"),
                        ));
                        bad = true;
                    } else if let Some(c) = w.crash.as_ref() {
                        let over = c.ledger.overlapping_pub(&b);
                        if let Some(h) = over.first() {
                            j.report(Violation::new(
                                "C01",
                                "overlap".to_string(),
                                format!(
                                    "thread {tid} call #{id} {call:?} returned block (frame {frame}, order {order}) at step {}, overlapping the held block (frame {}, order {})",
                                    w.steps, h.frame, h.order
                                ),
                            ));
                            bad = true;
                        }
                    }
                    if !bad {
                        let t = b.tree();
                        let invoked = j.history[id].invoke;
                        // `before`: number of calls invoked when the offline request returned; a call
                        // with a higher index was invoked after that return (event order, not the
                        // step counter, under which the two events can tie)
                        if let Some((since, before)) = j.offline.get(t).copied().flatten()
                            && id >= before
                        {
                            j.report(Violation::new(
                                "C15",
                                "get-from-offline-tree",
                                format!("thread {tid} call #{id} {call:?} (invoked at step {invoked}) returned frame {frame} of tree {t}, offline since step {since}"),
                            ));
                        }
                        if !class_permitted(&cfg, *class, *c, *order) {
                            j.report(Violation::new(
                                "C13",
                                "class-not-permitted",
                                format!("thread {tid} call #{id} {call:?} reported class {c}"),
                            ));
                        }
                        held.push(b);
                    } else if w.aborted.is_none() {
                        w.aborted = Some(AbortReason::Foreign);
                    }
                }
                (Call::Get { .. }, Outcome::Err(e)) => {
                    j.stats.gets_err += 1;
                    if *e != ErrKind::Memory {
                        j.report(Violation::new(
                            "C03",
                            "valid-get-wrong-error",
                            format!("thread {tid} call #{id} {call:?} returned {e:?}"),
                        ));
                    }
                }
                (Call::Put { .. }, Outcome::Ok) => j.stats.puts_ok += 1,
                (Call::Put { .. }, Outcome::Err(e)) => {
                    j.report(Violation::new(
                        "C03",
                        "free-of-held-block-failed",
                        format!("thread {tid} call #{id} {call:?} (a block this thread holds) returned {e:?} at step {}", w.steps),
                    ));
                    if w.aborted.is_none() {
                        w.aborted = Some(AbortReason::Foreign);
                    }
                }
                (
                    Call::Change {
                        op: 2, id: Some(t), ..
                    },
                    Outcome::Ok,
                ) => {
                    j.stats.offline_ok += 1;
                    my_offline = Some(*t);
                    j.offline[*t] = Some((w.steps, j.history.len()));
                }
                (Call::Change { op: 1, .. }, Outcome::Ok) => {
                    j.stats.online_ok += 1;
                    my_offline = None;
                }
                (Call::Change { op: 1, .. }, Outcome::Err(e)) => {
                    j.report(Violation::new(
                        "C15",
                        "online-of-own-offline-tree-failed",
                        format!("thread {tid} call #{id} {call:?} returned {e:?}"),
                    ));
                    my_offline = None;
                }
                _ => {}
            }
            if let Some(c) = w.crash.as_mut() {
                c.ledger.ret(id, &outcome);
                if c.enabled && w.aborted.is_none() {
                    let label = format!(
                        "crash after thread {tid} call #{id} {call:?} returned {outcome:?} (step {})",
                        w.steps
                    );
                    masked(|| c.evaluate(&w.shadow_lower, &label, true));
                }
            }
        }
        if matches!(outcome, Outcome::Panic { .. } | Outcome::Aborted) {
            break;
        }
    }
    // a thread that still holds an offline tree brings it back (keeps the final accounting simple)
    shared.thread_end(tid);
    leave();
    let _ = my_offline;
}

impl ConcRunner<'_> {
    pub fn run(&self, case: &ConcCase) -> ConcResult {
        let cfg = case.cfg.clone();
        let n = case.programs.len().clamp(1, crate::world::MAX_THREADS);
        let mut res = ConcResult {
            violations: Vec::new(),
            foreign: None,
            history: Vec::new(),
            hash: 0,
            nontrivial: false,
            stats: ConcStats::default(),
            probes: Probes::default(),
            state_hashes: Vec::new(),
            schedule: Vec::new(),
            casfail_log: Vec::new(),
        };
        let bufs = unsafe { self.arenas.bufs(&cfg, case.at_end, case.lower_fill) };
        let (lp, ll) = (bufs.lower.as_ptr(), bufs.lower.len());
        let (tp, tl) = (bufs.trees.as_ptr(), bufs.trees.len());
        let (cp, cl) = (bufs.local.as_ptr(), bufs.local.len());
        let alloc = match create(&cfg, cfg.init(), bufs) {
            Ok(Ok(a)) => a,
            _ => {
                res.foreign = Some(Violation::new(
                    "C09",
                    "init-failed",
                    format!("LLFree::new({cfg:?}) failed"),
                ));
                return res;
            }
        };
        // ---- sequential setup (hooks masked: no scheduling points, no write log) ----
        let mut crash = Crash::new(cfg.clone(), self.side.clone());
        crash.enabled = false;
        let mut setup_id = 1 << 30;
        let mut last_got: Option<usize> = None;
        for call in &case.setup {
            // `Put { frame: PUT_LAST }`: give back the block of the previous setup allocation
            // (leaves a reservation behind whose tree is entirely free again)
            let resolved;
            let call = match (call, last_got) {
                (
                    Call::Put {
                        frame,
                        order,
                        class,
                        slot,
                    },
                    Some(f),
                ) if *frame == PUT_LAST => {
                    resolved = Call::Put {
                        frame: f,
                        order: *order,
                        class: *class,
                        slot: *slot,
                    };
                    &resolved
                }
                _ => call,
            };
            if !call.args_valid(&cfg) {
                continue;
            }
            crash.ledger.invoke(setup_id, call);
            let out = masked(|| exec(&alloc, call));
            last_got = match &out {
                Outcome::GetOk { frame, .. } => Some(*frame),
                _ => None,
            };
            crash.ledger.ret(setup_id, &out);
            setup_id += 1;
            if let Outcome::Panic { msg, loc } = &out {
                res.foreign = Some(Violation::new(
                    "C09",
                    panic_signature(msg, loc),
                    format!("setup call {call:?} panicked: {msg} at {loc}"),
                ));
                return res;
            }
        }
        // ---- deal held blocks to the threads ----
        let mut dealt: Vec<Vec<Block>> = vec![Vec::new(); n];
        for d in &case.deals {
            let env: Vec<Block> = crash.ledger.held.values().copied().collect();
            // only blocks not yet dealt
            let env: Vec<Block> = env
                .into_iter()
                .filter(|b| !dealt.iter().flatten().any(|x| x.overlaps(b)))
                .collect();
            if env.is_empty() {
                break;
            }
            let b = env[d.k % env.len()];
            let order = d.order.min(b.order);
            let parts = 1usize << (b.order - order);
            let mut pieces: Vec<Block> = Vec::new();
            let mut taken: Vec<Block> = Vec::new();
            for &(idx, tid) in &d.parts {
                let p = Block::new(b.frame + (idx % parts) * (1 << order), order);
                if taken.iter().any(|t: &Block| t.overlaps(&p)) {
                    continue;
                }
                taken.push(p);
                dealt[tid % n].push(p);
            }
            // ledger: replace b by the taken parts plus the remainder
            if !taken.is_empty() {
                let mut rest = vec![b];
                for t in &taken {
                    let mut next = Vec::new();
                    for r in rest {
                        if r.contains(t) {
                            next.extend(r.minus(t));
                        } else {
                            next.push(r);
                        }
                    }
                    rest = next;
                }
                pieces.extend(rest);
                pieces.extend(taken.iter().copied());
                crash.ledger.split_held(&b, &pieces);
            }
        }
        // ---- world ----
        let mut world = World::new(n, case.sched_seed);
        let total_ops: usize = case.programs.iter().map(Vec::len).sum();
        world.step_cap = 4000 + 1500 * total_ops as u64;
        world.call_cap = 6 * solo_budget(&cfg);
        if !case.schedule.is_empty() {
            world.strat = Strategy::Replay;
            world.replay = case.schedule.clone();
            world.replay_then = case.tail.clone();
        } else {
            world.strat = case.strategy.clone();
        }
        // PCT priorities (also needed when a PCT strategy takes over after a recorded prefix)
        let mut prio: Vec<u32> = (0..n as u32).map(|i| 1000 + i).collect();
        world.rng.shuffle(&mut prio);
        world.prio = if case.prio.len() == n { case.prio.clone() } else { prio };
        if self.props.has(15) && !cfg!(miri) {
            world.alloc_ptr = &alloc as *const LLFree<'static> as usize;
        }
        world.casfail_den = case.casfail_den;
        world.casfail_replay = case.casfail_at.clone();
        world.solo_points = case.solo.clone();
        world.solo_budget = solo_budget(&cfg);
        world.state_sample = 1;
        if !cfg!(miri) {
            unsafe {
                world.attach(
                    cfg.frames,
                    std::slice::from_raw_parts(lp, ll),
                    std::slice::from_raw_parts(tp, tl),
                    std::slice::from_raw_parts(cp, cl),
                );
            }
        }
        crash.enabled = self.props.has(5) && !cfg!(miri);
        crash.destructive = true;
        world.crash = Some(Box::new(crash));
        let shared = Shared::new(world);
        let judge = std::sync::Mutex::new(Judge {
            cfg: cfg.clone(),
            props: self.props,
            out: Vec::new(),
            foreign: None,
            history: Vec::new(),
            offline: vec![None; cfg.trees()],
            reserved: masked(|| guarded(|| tree_snapshot(&alloc, cfg.trees())))
                .map(|s| s.iter().enumerate().filter(|(_, t)| t.2).map(|(i, _)| i).collect())
                .unwrap_or_default(),
            stats: ConcStats::default(),
        });
        std::thread::scope(|s| {
            for tid in 0..n {
                let shared = &shared;
                let alloc = &alloc;
                let judge = &judge;
                let program = &case.programs[tid];
                let held = dealt[tid].clone();
                std::thread::Builder::new()
                    .stack_size(2 * 1024 * 1024)
                    .spawn_scoped(s, move || {
                        thread_main(tid, shared, alloc, program, held, judge)
                    })
                    .expect("spawn");
            }
            shared.run_all();
        });
        // ---- after the run ----
        let mut w = shared.lock();
        let mut j = judge.into_inner().unwrap();
        res.stats = j.stats.clone();
        res.stats.steps = w.steps;
        res.stats.conflicts = w.conflicts;
        res.stats.persist_writes = w.persist_writes;
        res.probes = w.probes.clone();
        res.schedule = w.sched_log.clone();
        res.casfail_log = w.casfail_log.clone();
        res.state_hashes = std::mem::take(&mut w.state_hashes);
        res.nontrivial = w.conflicts > 0;
        let mut h = Hasher::default();
        h.add(w.trace_hash.finish());
        h.add_bytes(format!("{:?}{:?}{:?}", case.programs, case.setup, case.cfg).as_bytes());
        res.hash = h.finish();
        match w.aborted {
            Some(AbortReason::SoloBudget { tid, steps }) => {
                let call = j
                    .history
                    .iter()
                    .rev()
                    .find(|c| c.tid == tid)
                    .map(|c| format!("{:?}", c.call));
                j.report(Violation::new(
                    "C21",
                    "solo-budget-exceeded",
                    format!(
                        "thread {tid} running alone (all others frozen) did not finish {} within {steps} atomic steps (budget {})",
                        call.unwrap_or_default(),
                        solo_budget(&cfg)
                    ),
                ));
                res.stats.aborted += 1;
            }
            Some(AbortReason::StepCap) => {
                j.report(Violation::new(
                    "C21",
                    "step-cap-exceeded",
                    format!("the run did not finish within {} atomic steps", w.step_cap),
                ));
                res.stats.aborted += 1;
            }
            Some(AbortReason::CallBudget { tid, steps }) => {
                let call = j
                    .history
                    .iter()
                    .rev()
                    .find(|c| c.tid == tid)
                    .map(|c| format!("{:?}", c.call));
                j.report(Violation::new(
                    "C21",
                    "call-step-budget-exceeded",
                    format!(
                        "thread {tid} call {} took more than {steps} atomic steps of its own (the whole run has {} calls)",
                        call.unwrap_or_default(),
                        j.history.len()
                    ),
                ));
                res.stats.aborted += 1;
            }
            Some(AbortReason::Foreign) => res.stats.aborted += 1,
            None => {}
        }
        if let Some((tid, tree, step)) = w.change_on_reserved {
            j.report(Violation::new(
                "C15",
                "change-applied-to-reserved-tree",
                format!("thread {tid}: the compare-exchange of a tree change on tree {tree} at step {step} succeeded although the entry was reserved at that moment"),
            ));
        }
        let clean = w.aborted.is_none();
        let crash = w.crash.take().unwrap();
        res.stats.crash_points = crash.points;
        res.stats.crash_inflight = crash.points_inflight;
        res.stats.crash_in_split = crash.points_in_split;
        if self.props.has(5) {
            for v in &crash.violations {
                j.out.push(v.clone());
            }
        }
        drop(w);
        if clean {
            // final state is history determined: everything held is allocated, the rest is free
            let mut model = Model::new_free(cfg.frames);
            for b in crash.ledger.held.values() {
                for f in b.frame..b.end() {
                    model.alloc[f] = true;
                }
            }
            for (t, o) in j.offline.iter().enumerate() {
                if o.is_some() {
                    model.offline.insert(t);
                }
            }
            if self.props.has(4) || self.props.has(1) {
                if let Ok(Some((f, got, want))) = guarded(|| compare_frames(&alloc, &model)) {
                    j.report(Violation::new(
                        "C04",
                        "final-frame-state",
                        format!("after all threads finished: frame {f} free={got} in the allocator, free={want} by the history"),
                    ));
                }
            }
            if self.props.has(4) {
                let mut v = Vec::new();
                let mut vr = Rng::new(case.sched_seed ^ 0x77);
                check_views(&alloc, &model, &mut vr, &mut v);
                for mut x in v {
                    x.detail = format!("after all threads finished: {}", x.detail);
                    j.report(x);
                }
            }
            if self.props.has(10) && cfg.kind != ClassKind::Custom {
                // drain, then probe
                let _ = guarded(|| llfree::Alloc::drain(&alloc));
                for &(frame, order, class) in &case.final_probes {
                    let call = if order == usize::MAX {
                        Call::Get {
                            target: None,
                            order: 0,
                            class,
                            slot: None,
                        }
                    } else {
                        Call::Get {
                            target: Some(frame),
                            order,
                            class,
                            slot: None,
                        }
                    };
                    if !call.args_valid(&cfg) {
                        continue;
                    }
                    res.stats.final_probes += 1;
                    let out = exec(&alloc, &call);
                    match (&call, &out) {
                        (Call::Get { target: None, .. }, Outcome::Err(_))
                            if model.online_free() > 0 =>
                        {
                            j.report(Violation::new(
                                "C10",
                                "oom-after-drain-with-free-frames",
                                format!("after the concurrent run: drain + {call:?} returned {out:?}, {} frames are free", model.online_free()),
                            ));
                        }
                        (
                            Call::Get {
                                target: Some(t),
                                order,
                                ..
                            },
                            Outcome::Err(_),
                        ) if model.get_allowed(&Block::new(*t, *order)) => {
                            j.report(Violation::new(
                                "C10",
                                "targeted-get-of-free-block-failed",
                                format!("after the concurrent run: drain + {call:?} returned {out:?}, the block is free"),
                            ));
                        }
                        (Call::Get { order, .. }, Outcome::GetOk { frame, .. }) => {
                            let b = Block::new(*frame, *order);
                            if !model.get_allowed(&b) {
                                j.report(Violation::new(
                                    "C01",
                                    "final-probe-overlap",
                                    format!("after the concurrent run: {call:?} returned frame {frame}, which is held"),
                                ));
                                break;
                            }
                            model.apply_get(&b);
                        }
                        (_, Outcome::Panic { msg, loc }) => {
                            j.report(Violation::new(
                                "C09",
                                panic_signature(msg, loc),
                                format!("final probe {call:?} panicked: {msg} at {loc}"),
                            ));
                            break;
                        }
                        _ => {}
                    }
                }
                // small allocators: take base frames until out-of-memory; every frame the model
                // has free outside offline trees must have been handed out by then
                // (expensive, so only when a cheap look at the tree array shows a tree whose counter
                // is below the number of frames the lower level has free in it - the way frames
                // become unreachable; the verdict itself comes from the allocations alone)
                let suspicious = masked(|| {
                    guarded(|| {
                        let snap = tree_snapshot(&alloc, cfg.trees());
                        (0..cfg.trees()).any(|t| {
                            !model.offline.contains(&t)
                                && snap[t].1 < llfree::Alloc::stats_at(&alloc, llfree::FrameId(t * TREE_FRAMES), TREE_ORDER).free_frames
                        })
                    })
                })
                .unwrap_or(false);
                if suspicious && cfg.frames <= 4 * TREE_FRAMES && j.out.is_empty() {
                    let mut got = 0usize;
                    let want = model.online_free();
                    let probe = Call::Get { target: None, order: 0, class: 0, slot: None };
                    while got <= want {
                        match exec(&alloc, &probe) {
                            Outcome::GetOk { frame, .. } => {
                                if !model.get_allowed(&Block::new(frame, 0)) {
                                    j.report(Violation::new(
                                        "C01",
                                        "final-probe-overlap",
                                        format!("after the concurrent run: {probe:?} returned frame {frame}, which is held"),
                                    ));
                                    break;
                                }
                                model.apply_get(&Block::new(frame, 0));
                                got += 1;
                            }
                            Outcome::Err(_) => break,
                            _ => {
                                got = want;
                                break;
                            }
                        }
                    }
                    res.stats.final_probes += 1;
                    if got < want {
                        j.report(Violation::new(
                            "C10",
                            "oom-after-drain-with-free-frames",
                            format!("after the concurrent run: drain, then base-order allocations until out-of-memory handed out {got} frames, {want} were free"),
                        ));
                    }
                }
            }
            if self.props.has(15) && !self.props.has(10) && cfg.kind != ClassKind::Custom {
                // C15 epilogue (sequential, no drain: a drain would wipe out what a race left in
                // the slots): every tree in turn is emptied (all held blocks in it freed without
                // a slot), taken offline if the tree array shows it unreserved and entirely free,
                // and then one base frame is requested through every slot of every class and
                // without a slot: none may come from the offline tree.
                'trees: for t in 0..cfg.trees() {
                    if model.offline.contains(&t) {
                        continue;
                    }
                    let lo = t * TREE_FRAMES;
                    let hi = (lo + TREE_FRAMES).min(cfg.frames);
                    let mine: Vec<Block> = crash.ledger.held.values().copied().filter(|b| b.frame >= lo && b.frame < hi).collect();
                    if mine.len() > 64 {
                        continue;
                    }
                    for b in &mine {
                        let call = Call::Put { frame: b.frame, order: b.order, class: 0, slot: None };
                        if !matches!(exec(&alloc, &call), Outcome::Ok) {
                            break 'trees;
                        }
                        model.apply_put(b);
                    }
                    let snap = masked(|| guarded(|| tree_snapshot(&alloc, cfg.trees()))).unwrap_or_default();
                    let Some(&(_, free, reserved)) = snap.get(t) else { break };
                    if reserved || free != hi - lo {
                        continue;
                    }
                    let off = Call::Change { id: Some(t), mclass: None, mfree: hi - lo, class: None, op: 2 };
                    if !matches!(exec(&alloc, &off), Outcome::Ok) {
                        j.report(Violation::new(
                            "C15",
                            "offline-of-free-tree-failed",
                            format!("after the concurrent run: {off:?} failed although tree {t} is unreserved and entirely free"),
                        ));
                        break;
                    }
                    res.stats.offline_ok += 1;
                    let mut requests: Vec<(u8, Option<usize>)> = Vec::new();
                    for (c, n) in cfg.slots.iter().enumerate() {
                        requests.push((c as u8, None));
                        for s in 0..*n {
                            requests.push((c as u8, Some(s)));
                        }
                    }
                    for (class, slot) in requests {
                        let call = Call::Get { target: None, order: 0, class, slot };
                        match exec(&alloc, &call) {
                            Outcome::GetOk { frame, .. } if frame >= lo && frame < hi => {
                                j.report(Violation::new(
                                    "C15",
                                    "get-from-offline-tree",
                                    format!("after the concurrent run: tree {t} emptied and taken offline, then {call:?} returned frame {frame} of it"),
                                ));
                                break 'trees;
                            }
                            Outcome::GetOk { frame, .. } => {
                                // give it back at once (not through the slot)
                                let back = Call::Put { frame, order: 0, class, slot: None };
                                if !matches!(exec(&alloc, &back), Outcome::Ok) {
                                    break 'trees;
                                }
                            }
                            Outcome::Panic { .. } | Outcome::Aborted => break 'trees,
                            _ => {}
                        }
                    }
                    let on = Call::Change { id: Some(t), mclass: None, mfree: 0, class: None, op: 1 };
                    if !matches!(exec(&alloc, &on), Outcome::Ok) {
                        j.report(Violation::new(
                            "C15",
                            "online-of-own-offline-tree-failed",
                            format!("after the concurrent run: {on:?} failed for the tree taken offline just before"),
                        ));
                        break;
                    }
                    res.stats.online_ok += 1;
                }
            }
        }
        res.violations = j.out;
        res.foreign = j.foreign;
        res.history = j.history;
        res
    }
}

/// Step budget of one call running alone: several times the longest uncontended call
pub fn solo_budget(cfg: &Config) -> u64 {
    let slots: usize = cfg.slots.iter().sum();
    64 * (HUGE_FRAMES / 64 + TREE_HUGE + cfg.trees() + slots) as u64
}

// ------------------------------------------------------------------------------------------
// Generators K1..K6

fn gen_class_slot(rng: &mut Rng, cfg: &Config, same_slot: bool) -> (u8, Option<usize>) {
    let class = rng.below(cfg.slots.len()) as u8;
    let n = cfg.slots[class as usize];
    let slot = if n == 0 || rng.chance(1, 4) {
        None
    } else if same_slot {
        Some(0)
    } else {
        Some(rng.below(n))
    };
    (class, slot)
}

fn gen_kind(rng: &mut Rng, custom: bool) -> ClassKind {
    match rng.below(if custom { 4 } else { 3 }) {
        0 => ClassKind::Simple,
        1 => ClassKind::Movable,
        2 => ClassKind::Zeroed,
        _ => ClassKind::Custom,
    }
}

fn gen_strategy(rng: &mut Rng, n: usize, expected: u64, stall_bias: bool) -> Strategy {
    let pick = if stall_bias {
        rng.weighted(&[2, 3, 2, 4, 2])
    } else {
        rng.weighted(&[4, 3, 3, 1, 3])
    };
    match pick {
        0 => Strategy::Uniform,
        4 => Strategy::AfterWrite {
            den: rng.range(4, 16),
        },
        1 => {
            let d = rng.range(1, 3);
            Strategy::Pct {
                change: (0..d)
                    .map(|_| rng.below(expected.max(2) as usize) as u64)
                    .collect(),
            }
        }
        2 => Strategy::Burst {
            den: rng.range(3, 12),
        },
        _ => Strategy::Stall {
            tid: rng.below(n),
            from: rng.below(expected.max(2) as usize) as u64,
            len: 100_000,
        },
    }
}

pub struct GenOpts {
    pub thorough: bool,
    pub custom: bool,
    pub solo_points: usize,
    pub stall_bias: bool,
    pub probes: bool,
}

pub fn gen_case(rng: &mut Rng, kind: &str, o: &GenOpts) -> ConcCase {
    // thorough tier: sometimes a fourth thread
    let mut n = if o.thorough && rng.chance(1, 8) {
        4
    } else if rng.chance(2, 3) {
        2
    } else {
        3
    };
    // with the C13 oracle on, half of the runs use the policy with unusable class pairs
    let ck = if o.custom && rng.chance(1, 3) {
        ClassKind::Custom
    } else {
        gen_kind(rng, o.custom)
    };
    let mut setup = Vec::new();
    let mut deals = Vec::new();
    let mut programs: Vec<Vec<SOp>> = vec![Vec::new(); n];
    let mut directed = false;
    let cfg;
    let small_orders = [0usize, 0, 0, 0, 1, 2, 3, 4, 5, 6, 7, 7, 8, 8];
    match kind {
        // same bitfield: single row CAS vs multi row CAS windows
        "K1" => {
            let frames = if rng.chance(1, 2) {
                TREE_FRAMES
            } else {
                rng.range(1, TREE_HUGE) * HUGE_FRAMES
                    - if rng.chance(1, 4) {
                        rng.range(1, 70)
                    } else {
                        0
                    }
            };
            cfg = Config {
                frames,
                alloc_all: false,
                kind: ck,
                slots: (0..ck.classes()).map(|_| rng.range(1, 2)).collect(),
            };
            for _ in 0..rng.below(4) {
                let (class, _) = gen_class_slot(rng, &cfg, true);
                setup.push(Call::Get {
                    target: None,
                    order: *rng.pick(&small_orders),
                    class,
                    slot: None,
                });
            }
            for i in 0..rng.below(3) {
                deals.push(Deal {
                    k: i,
                    order: 0,
                    parts: vec![(0, rng.below(n))],
                });
            }
            let same_slot = rng.chance(1, 2);
            if cfg.frames >= HUGE_FRAMES && rng.chance(1, 5) {
                // directed variant: the first rows of the first huge frame are taken by a
                // multi-row block, one thread asks for another multi-row block (it lands in a
                // later chunk of the same bitfield and sets its rows one CAS at a time), the
                // other one asks for a small block by number somewhere in the first eight rows
                directed = true;
                setup.clear();
                deals.clear();
                let (class, _) = gen_class_slot(rng, &cfg, true);
                setup.push(Call::Get {
                    target: None,
                    order: rng.range(7, 8),
                    class,
                    slot: None,
                });
                let (class, slot) = gen_class_slot(rng, &cfg, same_slot);
                programs[0].push(SOp::Get {
                    order: rng.range(7, 8),
                    class,
                    slot,
                    target: None,
                });
                let (class, slot) = gen_class_slot(rng, &cfg, same_slot);
                let order = *rng.pick(&[0usize, 0, 0, 1, 3, 5, 6]);
                let f = ((rng.below(8) * 64 + rng.below(64)) >> order) << order;
                programs[1].push(SOp::Get {
                    order,
                    class,
                    slot,
                    target: Some(f),
                });
                for p in programs.iter_mut() {
                    if rng.chance(1, 3) {
                        let (class, slot) = gen_class_slot(rng, &cfg, same_slot);
                        p.push(SOp::Get {
                            order: *rng.pick(&small_orders),
                            class,
                            slot,
                            target: None,
                        });
                    }
                }
            }
            for p in programs.iter_mut() {
                if directed {
                    break;
                }
                for _ in 0..rng.range(1, 4) {
                    let (class, slot) = gen_class_slot(rng, &cfg, same_slot);
                    if rng.chance(3, 4) {
                        let order = *rng.pick(&small_orders);
                        // one in four: a targeted request, close to the start of the range
                        // (where the untargeted ones of the other threads land)
                        let target = if rng.chance(1, 4) {
                            let blocks = (cfg.frames >> order).max(1);
                            let f = match rng.below(3) {
                                // one of the first blocks of this order
                                0 => rng.below(blocks.min(8)) << order,
                                // somewhere in one of the first rows (the multi-row requests of
                                // the other threads work on these rows one CAS at a time)
                                1 => ((rng.below(8) * 64 + rng.below(64)) >> order) << order,
                                _ => rng.below(blocks) << order,
                            };
                            Some(if f + (1 << order) <= cfg.frames { f } else { 0 })
                        } else {
                            None
                        };
                        p.push(SOp::Get {
                            order,
                            class,
                            slot,
                            target,
                        });
                    } else {
                        p.push(SOp::PutHeld {
                            k: rng.below(4),
                            sub: None,
                            class,
                            slot,
                        });
                    }
                }
            }
        }
        // huge / multi huge
        "K2" => {
            cfg = Config {
                frames: rng.range(1, 2) * TREE_FRAMES
                    - if rng.chance(1, 4) { HUGE_FRAMES } else { 0 },
                alloc_all: false,
                kind: ck,
                slots: (0..ck.classes()).map(|_| rng.range(1, 2)).collect(),
            };
            for _ in 0..rng.below(3) {
                let (class, _) = gen_class_slot(rng, &cfg, true);
                setup.push(Call::Get {
                    target: None,
                    order: rng.range(HUGE_ORDER, TREE_ORDER),
                    class,
                    slot: None,
                });
            }
            for i in 0..rng.below(3) {
                deals.push(Deal {
                    k: i,
                    order: HUGE_ORDER,
                    parts: vec![(0, rng.below(n))],
                });
            }
            for p in programs.iter_mut() {
                for _ in 0..rng.range(1, 4) {
                    let (class, slot) = gen_class_slot(rng, &cfg, false);
                    let order = rng.range(HUGE_ORDER, TREE_ORDER);
                    if rng.chance(3, 4) {
                        let target = if rng.chance(1, 3) {
                            let len = 1usize << order;
                            Some(rng.below((cfg.frames / len).max(1)) * len)
                        } else {
                            None
                        };
                        p.push(SOp::Get {
                            order,
                            class,
                            slot,
                            target,
                        });
                    } else {
                        p.push(SOp::PutHeld {
                            k: rng.below(4),
                            sub: None,
                            class,
                            slot,
                        });
                    }
                }
            }
        }
        // different parts of the same (split) huge frame
        "K3" => {
            let alloc_all = rng.chance(1, 2);
            cfg = Config {
                frames: rng.range(1, 2) * TREE_FRAMES,
                alloc_all,
                kind: ck,
                slots: (0..ck.classes()).map(|_| rng.range(1, 2)).collect(),
            };
            if !alloc_all {
                for _ in 0..rng.range(1, 2) {
                    let (class, _) = gen_class_slot(rng, &cfg, true);
                    setup.push(Call::Get {
                        target: None,
                        order: HUGE_ORDER,
                        class,
                        slot: None,
                    });
                }
            }
            // parts of one huge frame to different threads
            let order = *rng.pick(&[0usize, 0, 0, 1, 3, 6, 7, 8]);
            let parts_n = 1usize << (HUGE_ORDER - order);
            let mut parts = Vec::new();
            for t in 0..n {
                for _ in 0..rng.range(1, 2) {
                    parts.push((rng.below(parts_n), t));
                }
            }
            let k = rng.below(4);
            if alloc_all && rng.chance(1, 2) {
                // variant: the huge frame is already split when the threads start (its last base
                // frame was freed during setup), so concurrent frees of its parts meet in the same
                // bitfield without going through the split (and its known retry panic)
                let huges = cfg.frames / HUGE_FRAMES;
                let h = k % huges;
                setup.push(Call::Put {
                    frame: h * HUGE_FRAMES + HUGE_FRAMES - 1,
                    order: 0,
                    class: 0,
                    slot: None,
                });
                // the environment now holds the buddy remainder of that huge frame; its first
                // (largest) piece is block number h again
            }
            deals.push(Deal { k, order, parts });
            if rng.chance(1, 3) {
                deals.push(Deal {
                    k: rng.below(4),
                    order: 0,
                    parts: vec![(rng.below(512), rng.below(n))],
                });
            }
            for p in programs.iter_mut() {
                for _ in 0..rng.range(1, 3) {
                    let (class, slot) = gen_class_slot(rng, &cfg, false);
                    if rng.chance(3, 4) {
                        let sub = if order > 0 && rng.chance(1, 3) {
                            Some((rng.below(order), rng.below(8)))
                        } else {
                            None
                        };
                        p.push(SOp::PutHeld {
                            k: rng.below(3),
                            sub,
                            class,
                            slot,
                        });
                    } else {
                        p.push(SOp::Get {
                            order: *rng.pick(&small_orders),
                            class,
                            slot,
                            target: None,
                        });
                    }
                }
            }
        }
        // reservation churn
        "K4" => {
            cfg = Config {
                frames: rng.range(2, 4) * TREE_FRAMES
                    - if rng.chance(1, 3) {
                        rng.range(1, HUGE_FRAMES - 1)
                    } else {
                        0
                    },
                alloc_all: false,
                kind: ck,
                slots: (0..ck.classes()).map(|_| rng.range(1, 3)).collect(),
            };
            for _ in 0..rng.below(4) {
                let (class, slot) = gen_class_slot(rng, &cfg, false);
                setup.push(Call::Get {
                    target: None,
                    order: *rng.pick(&[0usize, 0, 3, 9]),
                    class,
                    slot,
                });
            }
            for i in 0..rng.below(4) {
                deals.push(Deal {
                    k: i,
                    order: 99,
                    parts: vec![(0, rng.below(n))],
                });
            }
            for p in programs.iter_mut() {
                for _ in 0..rng.range(2, 5) {
                    let (class, slot) = gen_class_slot(rng, &cfg, false);
                    match rng.weighted(&[8, 5, 2, 2, 2, 2]) {
                        0 => p.push(SOp::Get {
                            order: *rng.pick(&[0usize, 0, 0, 2, 6, 9, 10]),
                            class,
                            slot,
                            target: None,
                        }),
                        1 => p.push(SOp::PutHeld {
                            k: rng.below(4),
                            sub: None,
                            class,
                            slot,
                        }),
                        2 => p.push(SOp::Drain),
                        3 => p.push(SOp::Reclass {
                            id: if rng.chance(1, 2) {
                                Some(rng.below(cfg.trees()))
                            } else {
                                None
                            },
                            mclass: if rng.chance(1, 2) {
                                Some(rng.below(cfg.slots.len()) as u8)
                            } else {
                                None
                            },
                            mfree: *rng.pick(&[0, 1, TREE_FRAMES / 2, TREE_FRAMES]),
                            class: rng.below(cfg.slots.len()) as u8,
                        }),
                        4 => p.push(SOp::Offline {
                            tree: rng.below(cfg.trees()),
                        }),
                        _ => p.push(SOp::OnlineOwn {
                            class: if rng.chance(1, 2) {
                                Some(rng.below(cfg.slots.len()) as u8)
                            } else {
                                None
                            },
                        }),
                    }
                }
                if p.iter().any(|o| matches!(o, SOp::Offline { .. })) {
                    p.push(SOp::OnlineOwn { class: None });
                }
            }
        }
        // near exhaustion: sync / steal / demote and their undo paths
        "K5" => {
            cfg = Config {
                frames: rng.range(1, 3) * TREE_FRAMES
                    - if rng.chance(1, 3) {
                        rng.range(1, HUGE_FRAMES - 1)
                    } else {
                        0
                    },
                alloc_all: true,
                kind: ck,
                slots: (0..ck.classes()).map(|_| rng.range(1, 2)).collect(),
            };
            // free a handful of frames
            let trees = cfg.trees();
            for _ in 0..rng.range(1, 5) {
                let t = rng.below(trees);
                let (class, slot) = gen_class_slot(rng, &cfg, false);
                let order = *rng.pick(&[0usize, 0, 0, 1, 3, 9]);
                let len = 1usize << order;
                let base = t * TREE_FRAMES;
                let span = cfg.frames.saturating_sub(base).min(TREE_FRAMES) / len;
                if span == 0 {
                    continue;
                }
                setup.push(Call::Put {
                    frame: base + rng.below(span) * len,
                    order,
                    class,
                    slot,
                });
            }
            for i in 0..rng.below(3) {
                deals.push(Deal {
                    k: rng.below(8),
                    order: *rng.pick(&[0usize, 0, 3]),
                    parts: vec![(rng.below(512), i % n)],
                });
            }
            for p in programs.iter_mut() {
                for _ in 0..rng.range(2, 5) {
                    let (class, slot) = gen_class_slot(rng, &cfg, false);
                    match rng.weighted(&[10, 4, 1]) {
                        0 => p.push(SOp::Get {
                            order: *rng.pick(&[0usize, 0, 0, 0, 1, 3, 9]),
                            class,
                            slot,
                            target: None,
                        }),
                        1 => p.push(SOp::PutHeld {
                            k: rng.below(4),
                            sub: None,
                            class,
                            slot,
                        }),
                        _ => p.push(SOp::Drain),
                    }
                }
            }
        }
        // class races: mostly free trees, allocations of different classes with and without slots,
        // class changes and drains - the class of a tree changes between a search's look at it and
        // the reserve/steal CAS
        "K8" => {
            cfg = Config {
                frames: rng.range(1, 3) * TREE_FRAMES,
                alloc_all: false,
                kind: ck,
                slots: (0..ck.classes()).map(|_| rng.range(1, 2)).collect(),
            };
            for _ in 0..rng.below(3) {
                let (class, slot) = gen_class_slot(rng, &cfg, false);
                setup.push(Call::Get {
                    target: None,
                    order: *rng.pick(&[0usize, 3, 9]),
                    class,
                    slot,
                });
            }
            for p in programs.iter_mut() {
                for _ in 0..rng.range(2, 4) {
                    let (class, slot) = gen_class_slot(rng, &cfg, false);
                    match rng.weighted(&[10, 3, 2, 1]) {
                        0 => p.push(SOp::Get {
                            order: *rng.pick(&[0usize, 0, 1, 5, 9]),
                            class,
                            slot,
                            target: None,
                        }),
                        1 => p.push(SOp::Reclass {
                            id: if rng.chance(2, 3) {
                                Some(rng.below(cfg.trees()))
                            } else {
                                None
                            },
                            mclass: if rng.chance(1, 3) {
                                Some(rng.below(cfg.slots.len()) as u8)
                            } else {
                                None
                            },
                            mfree: *rng.pick(&[0, 0, 1, TREE_FRAMES]),
                            class: rng.below(cfg.slots.len()) as u8,
                        }),
                        2 => p.push(SOp::Drain),
                        _ => p.push(SOp::PutHeld {
                            k: rng.below(3),
                            sub: None,
                            class,
                            slot,
                        }),
                    }
                }
            }
        }
        // offline races: slots hold reservations of entirely free trees (allocate + free through the
        // slot); drains, offline requests and allocations through the same slots meet
        "K9" => {
            let trees = rng.range(2, 4);
            cfg = Config {
                frames: trees * TREE_FRAMES,
                alloc_all: false,
                kind: ck,
                slots: (0..ck.classes())
                    .map(|_| rng.range(1, (trees - 1).min(2)))
                    .collect(),
            };
            let mut pairs: Vec<(u8, usize)> = Vec::new();
            for _ in 0..rng.range(1, 2) {
                let class = rng.below(cfg.slots.len()) as u8;
                let slot = rng.below(cfg.slots[class as usize]);
                let order = *rng.pick(&[0usize, 0, 3, 9]);
                setup.push(Call::Get {
                    target: None,
                    order,
                    class,
                    slot: Some(slot),
                });
                if rng.chance(5, 6) {
                    setup.push(Call::Put {
                        frame: PUT_LAST,
                        order,
                        class,
                        slot: Some(slot),
                    });
                }
                pairs.push((class, slot));
            }
            if rng.chance(1, 4) {
                // directed variant "undo race": the slot holds a reservation and a block of its
                // tree is held by a thread, which asks for that (allocated) block by number
                // through the slot: the local counter is decremented, the lower allocation
                // fails, and the decrement has to be undone - while another thread drains or
                // replaces the reservation
                n = 3;
                directed = true;
                programs = vec![Vec::new(); 3];
                setup.clear();
                let (class, slot) = pairs[0];
                let order = *rng.pick(&[0usize, 0, 1, 3]);
                setup.push(Call::Get {
                    target: None,
                    order,
                    class,
                    slot: Some(slot),
                });
                let first = rng.below(3);
                deals.push(Deal {
                    k: 0,
                    order: 99,
                    parts: vec![(0, first)],
                });
                programs[first].push(SOp::Get {
                    order,
                    class,
                    slot: Some(slot),
                    target: Some(HELD_TARGET),
                });
                programs[(first + 1) % 3].push(if rng.chance(1, 2) {
                    SOp::Drain
                } else {
                    // uses up / replaces the reservation of the same slot
                    SOp::Get {
                        order: *rng.pick(&[9usize, 10, 11]),
                        class,
                        slot: Some(slot),
                        target: None,
                    }
                });
                if rng.chance(1, 2) {
                    programs[(first + 2) % 3].push(SOp::Get {
                        order: *rng.pick(&[0usize, 3]),
                        class,
                        slot: Some(slot),
                        target: None,
                    });
                }
            } else if rng.chance(1, 2) {
                // directed variant: one thread drains, one asks for the reserved tree to go
                // offline, one allocates through the slot - each with little else to do
                n = 3;
                directed = true;
                programs = vec![Vec::new(); 3];
                let (class, slot) = pairs[0];
                let first = rng.below(3);
                programs[first].push(SOp::Drain);
                for _ in 0..rng.range(1, 2) {
                    programs[(first + 1) % 3].push(SOp::Offline {
                        tree: if rng.chance(5, 6) {
                            OFFLINE_RESERVED
                        } else {
                            rng.below(trees)
                        },
                    });
                }
                programs[(first + 2) % 3].push(SOp::Get {
                    order: *rng.pick(&[0usize, 0, 3, 9]),
                    class,
                    slot: Some(slot),
                    target: None,
                });
                if rng.chance(1, 3) {
                    let t = rng.below(3);
                    programs[t].push(SOp::Drain);
                }
                // mostly the tree stays offline to the end (the final judge knows offline trees)
                if rng.chance(1, 3) {
                    programs[(first + 1) % 3].push(SOp::OnlineOwn { class: None });
                }
            } else {
                for p in programs.iter_mut() {
                    for _ in 0..rng.range(1, 3) {
                        let (class, slot) = *rng.pick(&pairs);
                        match rng.weighted(&[5, 4, 3, 1, 1]) {
                            0 => p.push(SOp::Get {
                                order: *rng.pick(&[0usize, 0, 0, 3, 9]),
                                class,
                                slot: Some(slot),
                                target: None,
                            }),
                            // the first reservations of a fresh allocator go to the first trees
                            1 => p.push(SOp::Offline {
                                tree: if rng.chance(3, 4) {
                                    OFFLINE_RESERVED + rng.below(pairs.len())
                                } else {
                                    rng.below(trees)
                                },
                            }),
                            2 => p.push(SOp::Drain),
                            3 => p.push(SOp::PutHeld {
                                k: rng.below(2),
                                sub: None,
                                class,
                                slot: Some(slot),
                            }),
                            _ => p.push(SOp::OnlineOwn { class: None }),
                        }
                    }
                    if p.iter().any(|o| matches!(o, SOp::Offline { .. })) {
                        p.push(SOp::OnlineOwn { class: None });
                    }
                }
            }
        }
        // sync race: the slot's reserved tree has (almost) no local frames left, but frames were
        // freed into its global counter; the owner syncs while others drain / swap / steal the slot
        "K7" => {
            cfg = Config {
                frames: rng.range(1, 2) * TREE_FRAMES
                    - if rng.chance(1, 4) {
                        rng.range(1, HUGE_FRAMES - 1)
                    } else {
                        0
                    },
                alloc_all: true,
                kind: ck,
                slots: (0..ck.classes()).map(|_| rng.range(1, 2)).collect(),
            };
            let t = rng.below(cfg.trees());
            let base = t * TREE_FRAMES;
            let span = cfg.frames.saturating_sub(base).min(TREE_FRAMES);
            let class = rng.below(cfg.slots.len()) as u8;
            let slot = rng.below(cfg.slots[class as usize]);
            // k frames freed without a slot, then allocated again through the slot: the slot now
            // holds the tree with an (almost) empty local counter
            let k = rng.range(1, 3);
            let order = *rng.pick(&[0usize, 0, 0, 1, 3]);
            let len = 1usize << order;
            let mut used: Vec<usize> = Vec::new();
            let mut pick = |rng: &mut Rng, used: &mut Vec<usize>| -> Option<usize> {
                for _ in 0..32 {
                    let f = base + rng.below((span / len).max(1)) * len;
                    if f + len <= cfg.frames && !used.contains(&f) {
                        used.push(f);
                        return Some(f);
                    }
                }
                None
            };
            for _ in 0..k {
                if let Some(f) = pick(rng, &mut used) {
                    setup.push(Call::Put {
                        frame: f,
                        order,
                        class,
                        slot: None,
                    });
                }
            }
            let keep = rng.below(2);
            for _ in 0..k.saturating_sub(keep) {
                setup.push(Call::Get {
                    target: None,
                    order,
                    class,
                    slot: Some(slot),
                });
            }
            // more frames into the global counter of the now reserved tree
            for _ in 0..rng.range(1, 2) {
                if let Some(f) = pick(rng, &mut used) {
                    setup.push(Call::Put {
                        frame: f,
                        order,
                        class,
                        slot: None,
                    });
                }
            }
            for i in 0..rng.below(3) {
                deals.push(Deal {
                    k: rng.below(6),
                    order: *rng.pick(&[0usize, 0, 3]),
                    parts: vec![(rng.below(512), i % n)],
                });
            }
            for (t, p) in programs.iter_mut().enumerate() {
                if t == 0 {
                    p.push(SOp::Get {
                        order,
                        class,
                        slot: Some(slot),
                        target: None,
                    });
                }
                for _ in 0..rng.range(1, 3) {
                    let (c2, s2) = gen_class_slot(rng, &cfg, false);
                    match rng.weighted(&[4, 4, 3, 2]) {
                        0 => p.push(SOp::Drain),
                        1 => p.push(SOp::Get {
                            order: *rng.pick(&[0usize, 0, order, 1]),
                            class,
                            slot: Some(slot),
                            target: None,
                        }),
                        2 => p.push(SOp::Get {
                            order: *rng.pick(&[0usize, 0, 3]),
                            class: c2,
                            slot: s2,
                            target: None,
                        }),
                        _ => p.push(SOp::PutHeld {
                            k: rng.below(3),
                            sub: None,
                            class: c2,
                            slot: if rng.chance(1, 2) {
                                Some(slot).filter(|_| c2 == class)
                            } else {
                                None
                            },
                        }),
                    }
                }
            }
        }
        // targeted races
        _ => {
            cfg = Config {
                frames: rng.range(1, 2) * TREE_FRAMES,
                alloc_all: false,
                kind: ck,
                slots: (0..ck.classes()).map(|_| rng.range(1, 2)).collect(),
            };
            let order = *rng.pick(&[0usize, 0, 3, 6, 7, 8, 9, 10]);
            let len = 1usize << order.min(TREE_ORDER);
            let order = order.min(TREE_ORDER);
            let f = rng.below(cfg.frames / len) * len;
            // somebody holds the block and frees it while others try to allocate exactly it
            let held_first = rng.chance(1, 2);
            if held_first {
                setup.push(Call::Get {
                    target: Some(f),
                    order,
                    class: 0,
                    slot: None,
                });
                deals.push(Deal {
                    k: 0,
                    order: 99,
                    parts: vec![(0, 0)],
                });
            }
            for (t, p) in programs.iter_mut().enumerate() {
                for _ in 0..rng.range(1, 3) {
                    let (class, slot) = gen_class_slot(rng, &cfg, false);
                    match rng.weighted(&[6, 3, 3]) {
                        0 => {
                            // the block, a sub block or the covering block
                            let o2 = match rng.below(3) {
                                0 => order,
                                1 => rng.below(order + 1),
                                _ => rng.range(order, TREE_ORDER),
                            };
                            let l2 = 1usize << o2;
                            let f2 = if o2 <= order {
                                f + rng.below(len / l2) * l2
                            } else {
                                f / l2 * l2
                            };
                            if f2 + l2 <= cfg.frames {
                                p.push(SOp::Get {
                                    order: o2,
                                    class,
                                    slot,
                                    target: Some(f2),
                                });
                            }
                        }
                        1 => p.push(SOp::Get {
                            order: *rng.pick(&[0usize, order]),
                            class,
                            slot,
                            target: None,
                        }),
                        _ => p.push(SOp::PutHeld {
                            k: rng.below(2),
                            sub: None,
                            class,
                            slot,
                        }),
                    }
                }
                if held_first && t == 0 && !p.iter().any(|o| matches!(o, SOp::PutHeld { .. })) {
                    p.insert(
                        0,
                        SOp::PutHeld {
                            k: 0,
                            sub: None,
                            class: 0,
                            slot: None,
                        },
                    );
                }
            }
        }
    }
    if o.thorough && rng.chance(1, 4) {
        // thorough tier: longer programs (the tail repeats earlier operations of the same thread,
        // which keeps them meaningful for the family)
        for p in programs.iter_mut() {
            let len = p.len();
            if len == 0 {
                continue;
            }
            for _ in 0..rng.range(1, 3) {
                let op = p[rng.below(len)].clone();
                p.push(op);
            }
        }
    }
    let total_ops: usize = programs.iter().map(Vec::len).sum();
    // the range from which change points / stall points / solo points are drawn: measured runs
    // take 5..10 atomic steps per operation; mostly aim inside the run, sometimes wider
    let expected = if rng.chance(2, 3) { 9 } else { 22 } * total_ops as u64;
    let strategy = gen_strategy(rng, n, expected, o.stall_bias);
    let casfail_den = if rng.chance(1, 3) {
        rng.range(4, 20)
    } else {
        0
    };
    let mut solo = Vec::new();
    for _ in 0..o.solo_points {
        solo.push((rng.below(expected.max(2) as usize) as u64, rng.below(n)));
    }
    solo.sort();
    let mut final_probes = Vec::new();
    if o.probes {
        final_probes.push((0, usize::MAX, rng.below(cfg.slots.len()) as u8));
        for _ in 0..3 {
            let order = *rng.pick(&[0usize, 0, 3, 6, 9, TREE_ORDER]);
            let len = 1usize << order;
            if len <= cfg.frames {
                final_probes.push((
                    rng.below(cfg.frames / len) * len,
                    order,
                    rng.below(cfg.slots.len()) as u8,
                ));
            }
        }
    }
    ConcCase {
        kind: kind.to_string(),
        cfg,
        at_end: rng.chance(1, 2),
        lower_fill: if rng.chance(1, 2) {
            0
        } else {
            rng.below(256) as u8
        },
        setup,
        deals,
        programs,
        strategy,
        sched_seed: rng.next(),
        schedule: Vec::new(),
        casfail_den,
        casfail_at: None,
        // systematic solo windows are expensive (steps x threads re-executions): rare in the quick tier
        solo_sweep: o.solo_points > 0
            && total_ops <= 5
            && rng.chance(1, if o.thorough { 60 } else { 600 }),
        solo,
        final_probes,
        tail: None,
        // every depth-1 PCT schedule of a small case: n! priority orders x steps re-executions
        pct_sweep: total_ops <= 6
            && n <= 3
            && rng.chance(
                1,
                if directed {
                    12
                } else if o.thorough {
                    50
                } else {
                    250
                },
            ),
        prio: Vec::new(),
    }
}

// ------------------------------------------------------------------------------------------
// KE: evolved cases. Every logical shard keeps a corpus of cases that reached metadata states the
// shard had not seen before, and derives new cases from them (recorded schedule prefix + seeded
// tail, an injected preemption, changed operations, changed faults). The sequence of cases of a
// shard is a pure function of (VERIF_SEED, shard), independent of the number of worker processes.

pub const KE_SHARDS: u64 = 64;
/// setup marker: `Put { frame: PUT_LAST, .. }` frees the block of the preceding setup allocation
pub const PUT_LAST: usize = 1 << 40;
/// `SOp::Offline { tree: OFFLINE_RESERVED + k }`: the k-th tree reserved when the threads start
pub const OFFLINE_RESERVED: usize = 1000;
/// `SOp::Get { target: Some(HELD_TARGET + k) }`: targeted request for the k-th block the thread holds
pub const HELD_TARGET: usize = 1 << 41;

#[derive(Default)]
pub struct Evolve {
    shards: std::collections::BTreeMap<u64, (Vec<ConcCase>, std::collections::BTreeSet<u64>)>,
    pub fresh: u64,
    pub mutated: u64,
    pub kept: u64,
}

/// Order in which a worker visits the run indices of an evolving family
pub fn ke_indices(total: u64, shard: u64, nshards: u64) -> Vec<u64> {
    let mut v = Vec::new();
    let mut s = shard;
    while s < KE_SHARDS {
        let mut g = 0;
        while g * KE_SHARDS + s < total {
            v.push(g * KE_SHARDS + s);
            g += 1;
        }
        s += nshards;
    }
    v
}

fn rand_op(rng: &mut Rng, cfg: &Config) -> SOp {
    let (class, slot) = gen_class_slot(rng, cfg, false);
    match rng.weighted(&[8, 5, 1, 1]) {
        0 => {
            let order = *rng.pick(&[0usize, 0, 0, 1, 3, 5, 6, 7, 8, 9, 10]);
            let target = if rng.chance(1, 4) && (1usize << order) <= cfg.frames {
                Some(rng.below(cfg.frames >> order) << order)
            } else {
                None
            };
            SOp::Get {
                order,
                class,
                slot,
                target,
            }
        }
        1 => SOp::PutHeld {
            k: rng.below(4),
            sub: if rng.chance(1, 4) {
                Some((rng.below(3), rng.below(8)))
            } else {
                None
            },
            class,
            slot,
        },
        2 => SOp::Drain,
        _ => SOp::Reclass {
            id: if rng.chance(1, 2) {
                Some(rng.below(cfg.trees().max(1)))
            } else {
                None
            },
            mclass: None,
            mfree: *rng.pick(&[0, 1, TREE_FRAMES]),
            class: rng.below(cfg.slots.len()) as u8,
        },
    }
}

impl Evolve {
    pub fn next(&mut self, index: u64, seed: u64, o: &GenOpts) -> ConcCase {
        let mut rng = Rng::new(seed);
        let entry = self.shards.entry(index % KE_SHARDS).or_default();
        if entry.0.is_empty() || rng.chance(1, 4) {
            self.fresh += 1;
            let fam = *rng.pick(&["K1", "K2", "K3", "K4", "K5", "K6", "K7", "K8", "K9"]);
            return gen_case(&mut rng, fam, o);
        }
        self.mutated += 1;
        let mut c = entry.0[rng.below(entry.0.len())].clone();
        c.kind = "KE".to_string();
        c.sched_seed = rng.next();
        let tails = [
            Strategy::Uniform,
            Strategy::Burst { den: 6 },
            Strategy::AfterWrite { den: 8 },
        ];
        c.tail = Some(rng.pick(&tails).clone());
        c.solo.clear();
        c.solo_sweep = false;
        c.pct_sweep = false;
        c.prio.clear();
        match rng.below(5) {
            // recorded prefix, seeded tail
            0 | 1 => {
                let cut = rng.below(c.schedule.len() + 1);
                c.schedule.truncate(cut);
            }
            // inject one preemption, then a seeded tail
            2 => {
                if !c.schedule.is_empty() {
                    let p = rng.below(c.schedule.len());
                    let n = c.programs.len() as u8;
                    c.schedule[p] =
                        (c.schedule[p] + 1 + rng.below(n.max(2) as usize - 1) as u8) % n.max(1);
                    c.schedule.truncate(p + 1);
                }
            }
            // change the programs: append / remove / replace an operation
            3 => {
                let t = rng.below(c.programs.len());
                let op = rand_op(&mut rng, &c.cfg);
                let p = &mut c.programs[t];
                match rng.below(3) {
                    0 => p.push(op),
                    1 if !p.is_empty() => {
                        let i = rng.below(p.len());
                        p.remove(i);
                    }
                    _ if !p.is_empty() => {
                        let i = rng.below(p.len());
                        p[i] = op;
                    }
                    _ => p.push(op),
                }
                let cut = rng.below(c.schedule.len() + 1);
                c.schedule.truncate(cut);
            }
            // change the faults: fresh strategy, spurious CAS failures on or off
            _ => {
                c.schedule.clear();
                c.tail = None;
                let total: usize = c.programs.iter().map(Vec::len).sum();
                c.strategy =
                    gen_strategy(&mut rng, c.programs.len(), 22 * total as u64, o.stall_bias);
                c.casfail_at = None;
                c.casfail_den = if rng.chance(1, 2) {
                    rng.range(3, 12)
                } else {
                    0
                };
            }
        }
        if c.schedule.is_empty() && c.tail.is_some() {
            // nothing left of the prefix: the tail is the strategy
            c.strategy = c.tail.take().unwrap();
        }
        if o.solo_points > 0 {
            let total: usize = c.programs.iter().map(Vec::len).sum();
            for _ in 0..o.solo_points {
                c.solo.push((
                    rng.below(22 * total.max(1)) as u64,
                    rng.below(c.programs.len()),
                ));
            }
            c.solo.sort();
        }
        c
    }
    /// `case` as it is after its run (with the recorded schedule and fault log)
    pub fn feedback(&mut self, index: u64, case: &ConcCase, states: &[u64]) {
        let entry = self.shards.entry(index % KE_SHARDS).or_default();
        let mut new = 0;
        for s in states {
            if entry.1.len() < 200_000 && entry.1.insert(*s) {
                new += 1;
            }
        }
        if new > 0 {
            self.kept += 1;
            let mut c = case.clone();
            c.tail = None;
            if entry.0.len() < 128 {
                entry.0.push(c);
            } else {
                let i = (index / KE_SHARDS) as usize % entry.0.len();
                entry.0[i] = c;
            }
        }
    }
}
