fn main() { println!("{}", llfree::TREE_FRAMES); }
