//! llsim: deterministic simulation with fault injection for llfree-rs.
mod buf;
mod case;
mod conc;
mod crash;
mod driver;
mod exec;
mod json;
mod mem;
mod model;
mod oracle;
mod rng;
mod seq;
mod special;
mod trace;
mod world;

use std::collections::BTreeMap;
use std::path::Path;

fn usage() -> i32 {
    eprintln!(
        "usage: llsim check <Cxx> [--tier quick|thorough] | replay <file> | dev <props> <family> <runs> [seed] | gen <family> <seed> <index> <prop>"
    );
    2
}

fn main() {
    let args: Vec<String> = std::env::args().skip(1).collect();
    if std::env::var_os("LLSIM_THOROUGH").is_some() {
        // developer loop / digest: generate like the thorough tier
        case::THOROUGH.store(true, std::sync::atomic::Ordering::Relaxed);
    }
    exec::install_panic_hook();
    // free-running threads (Miri race detection) must not go through the scheduler hooks
    if args.first().map(String::as_str) != Some("mem-threads") {
        world::install_hooks();
    }
    let code = match args.first().map(String::as_str) {
        Some("check") => {
            let prop = args.get(1).cloned().unwrap_or_default();
            let mut tier = std::env::var("VERIF_TIER").unwrap_or_else(|_| "quick".into());
            if let Some(i) = args.iter().position(|a| a == "--tier") {
                tier = args.get(i + 1).cloned().unwrap_or(tier);
            }
            driver::check(&prop, &tier)
        }
        Some("worker") => driver::worker(&args[1..]),
        Some("replay") => match args.get(1) {
            Some(f) => driver::replay_cmd(Path::new(f)),
            None => usage(),
        },
        Some("replay-raw") => match args.get(1) {
            Some(f) => match driver::replay_here(Path::new(f)) {
                Ok((true, _)) => 1,
                Ok(_) => 0,
                Err(_) => 2,
            },
            None => usage(),
        },
        Some("trace") => trace::check(args.get(1).map(String::as_str).unwrap_or("quick")),
        Some("dev") => dev(&args[1..]),
        Some("digest") => digest(&args[1..]),
        Some("mem") => mem::run(&args[1..]),
        Some("mem-threads") => mem::threads(&args[1..]),
        Some("mem-corners") => mem::corners(&args[1..]),
        Some("min") => {
            let s = std::fs::read_to_string(&args[1]).unwrap();
            let j = json::J::parse(&s).unwrap();
            let c = case::Case::from_json(j.get("case").unwrap()).unwrap();
            let ctx = case::Ctx::new();
            let prop = j.gs("property").to_string();
            let props = oracle::Props::of(&[oracle::Props::id(&prop)]);
            let (small, tries) = case::minimise(&c, &ctx, props, &prop, j.gs("signature"), 3000);
            eprintln!("{tries} executions");
            println!("{}", j.clone().set("case", small.to_json()).to_pretty());
            0
        }
        _ => usage(),
    };
    std::process::exit(code);
}

/// Determinism self-test helper: one line per run with a digest of everything the run produced
/// (interleaving hash, every counter, every state hash, every violation, the recorded schedule).
/// usage: digest <props> <family> <seed> <shard> <nshards> <runs>
fn digest(args: &[String]) -> i32 {
    let props: Vec<u32> = args[0].split(',').map(|x| x.parse().unwrap()).collect();
    let props = oracle::Props::of(&props);
    let family = &args[1];
    let seed: u64 = args[2].parse().unwrap();
    let shard: u64 = args[3].parse().unwrap();
    let nshards: u64 = args[4].parse().unwrap();
    let runs: u64 = args[5].parse().unwrap();
    let ctx = case::Ctx::new();
    let evolving = family == "KE";
    let indices: Vec<u64> = if evolving {
        conc::ke_indices(runs, shard, nshards)
    } else {
        (shard..runs).step_by(nshards as usize).collect()
    };
    let mut evolve = conc::Evolve::default();
    for i in indices {
        let rs = driver::run_seed(seed, family, i);
        let (mut c, g) = if evolving {
            (
                case::Case::Conc(evolve.next(i, rs, &case::gen_opts(props))),
                None,
            )
        } else {
            case::Case::generate(family, rs, i, props)
        };
        let out = c.run(&ctx, props, g);
        if let (true, case::Case::Conc(cc)) = (evolving, &c) {
            evolve.feedback(i, cc, &out.state_hashes);
        }
        let mut h = rng::Hasher::default();
        h.add(out.hash);
        h.add(out.nontrivial as u64);
        for (k, v) in &out.counters {
            h.add_bytes(k.as_bytes());
            h.add(*v);
        }
        for s in &out.state_hashes {
            h.add(*s);
        }
        for v in &out.violations {
            h.add_bytes(format!("{}{}{}", v.prop, v.sig, v.detail).as_bytes());
        }
        if let Some(v) = &out.foreign {
            h.add_bytes(format!("{}{}{}", v.prop, v.sig, v.detail).as_bytes());
        }
        h.add_bytes(c.to_json().to_string().as_bytes());
        println!("{family} {i} {:016x}", h.finish());
    }
    0
}

/// Developer loop: run one family in-process, print violation signatures
fn dev(args: &[String]) -> i32 {
    let props: Vec<u32> = args[0].split(',').map(|x| x.parse().unwrap()).collect();
    let props = oracle::Props::of(&props);
    let family = &args[1];
    let n: u64 = args[2].parse().unwrap();
    let seed: u64 = args.get(3).and_then(|s| s.parse().ok()).unwrap_or(1);
    let ctx = case::Ctx::new();
    let t = std::time::Instant::now();
    let mut viol = BTreeMap::<String, (u64, String, u64)>::new();
    let mut foreign = BTreeMap::<String, u64>::new();
    let mut counters = BTreeMap::<String, u64>::new();
    let mut nontrivial = 0;
    let dump = std::env::var("LLSIM_DUMP").ok();
    let evolving = family == "KE";
    let indices: Vec<u64> = if evolving {
        conc::ke_indices(n, 0, 1)
    } else {
        (0..n).collect()
    };
    let mut evolve = conc::Evolve::default();
    for i in indices {
        let rs = driver::run_seed(seed, family, i);
        let (mut c, g) = if evolving {
            (
                case::Case::Conc(evolve.next(i, rs, &case::gen_opts(props))),
                None,
            )
        } else {
            case::Case::generate(family, rs, i, props)
        };
        let out = c.run(&ctx, props, g);
        if let (true, case::Case::Conc(cc)) = (evolving, &c) {
            evolve.feedback(i, cc, &out.state_hashes);
        }
        nontrivial += out.nontrivial as u64;
        for (k, v) in out.counters {
            *counters.entry(k).or_default() += v;
        }
        for v in out.violations {
            let key = format!("{}:{}", v.prop, v.sig);
            if !viol.contains_key(&key)
                && let Some(d) = &dump
            {
                c.freeze();
                let rec = json::J::obj()
                    .set("property", v.prop)
                    .set("signature", v.sig.clone())
                    .set("detail", v.detail.clone())
                    .set("case", c.to_json());
                std::fs::write(
                    format!("{d}/{}.json", key.replace([':', '/'], "_")),
                    rec.to_pretty(),
                )
                .unwrap();
            }
            let e = viol.entry(key).or_insert((0, v.detail.clone(), i));
            e.0 += 1;
        }
        if let Some(v) = out.foreign {
            *foreign.entry(format!("{}:{}", v.prop, v.sig)).or_default() += 1;
        }
    }
    println!("{n} runs ({nontrivial} non-trivial) in {:?}", t.elapsed());
    if std::env::var("LLSIM_COUNTERS").is_ok() {
        for (k, v) in &counters {
            println!("  {k} = {v}");
        }
    }
    for (k, (c, d, i)) in viol {
        println!("VIOL {k} x{c} first run {i}: {d}");
    }
    for (k, c) in foreign {
        println!("FOREIGN {k} x{c}");
    }
    0
}
