//! Caller-provided metadata buffers, sized exactly and flush against PROT_NONE guard pages.
//! An out-of-bounds access of the allocator hits a guard page and kills the worker (SIGSEGV).
//!
//! With feature `heapbuf` (AddressSanitizer build) or under Miri, every buffer is instead a fresh
//! heap allocation of exactly the requested size, so that the tool's own bounds checking applies.

use std::cell::RefCell;
use std::ptr::null_mut;

const PAGE: usize = 4096;

/// One reusable arena: [guard][data ... ][guard]
pub struct Arena {
    base: *mut u8,
    total: usize,
    cap: usize,
    /// heap mode: the allocation handed out last (freed when the next one is requested)
    last: RefCell<Option<(*mut u8, usize)>>,
}
unsafe impl Send for Arena {}
unsafe impl Sync for Arena {}

const HEAP: bool = cfg!(any(miri, feature = "heapbuf"));

impl Arena {
    pub fn new(cap: usize) -> Self {
        let cap = cap.next_multiple_of(PAGE).max(PAGE);
        let total = cap + 2 * PAGE;
        if HEAP {
            return Self {
                base: null_mut(),
                total,
                cap,
                last: RefCell::new(None),
            };
        }
        #[cfg(not(miri))]
        unsafe {
            let base = libc::mmap(
                null_mut(),
                total,
                libc::PROT_READ | libc::PROT_WRITE,
                libc::MAP_PRIVATE | libc::MAP_ANONYMOUS,
                -1,
                0,
            );
            assert!(base != libc::MAP_FAILED, "mmap failed");
            let base = base as *mut u8;
            assert!(libc::mprotect(base.cast(), PAGE, libc::PROT_NONE) == 0);
            assert!(libc::mprotect(base.add(PAGE + cap).cast(), PAGE, libc::PROT_NONE) == 0);
            Self {
                base,
                total,
                cap,
                last: RefCell::new(None),
            }
        }
        #[cfg(miri)]
        unreachable!()
    }
    pub fn cap(&self) -> usize {
        self.cap
    }
    fn heap(&self, size: usize, fill: u8) -> &'static mut [u8] {
        if let Some((p, n)) = self.last.borrow_mut().take() {
            heap_free_raw(p, n);
        }
        if size == 0 {
            return heap_buf(0, fill);
        }
        // keep the pointer returned by the allocator itself for the later deallocation
        let layout = std::alloc::Layout::from_size_align(size, 64).unwrap();
        unsafe {
            let p = std::alloc::alloc(layout);
            std::ptr::write_bytes(p, fill, size);
            *self.last.borrow_mut() = Some((p, size));
            std::slice::from_raw_parts_mut(p, size)
        }
    }
    /// A slice of exactly `size` bytes, 64-byte aligned, either ending at the trailing
    /// guard page (`at_end`) or starting right after the leading one.
    /// The contents are filled with `fill`.
    ///
    /// # Safety
    /// The caller must not use two slices of the same arena at the same time.
    #[allow(clippy::mut_from_ref)]
    pub unsafe fn slice(&self, size: usize, at_end: bool, fill: u8) -> &'static mut [u8] {
        assert!(size <= self.cap, "arena too small: {size} > {}", self.cap);
        if HEAP {
            return self.heap(size, fill);
        }
        let start = if at_end && size % 64 == 0 {
            PAGE + self.cap - size
        } else {
            PAGE
        };
        unsafe {
            let p = self.base.add(start);
            std::ptr::write_bytes(p, fill, size);
            std::slice::from_raw_parts_mut(p, size)
        }
    }
    /// Slice at an arbitrary byte offset into the data area (for misalignment / overlap tests).
    /// Not available in heap mode (returns None).
    #[allow(clippy::mut_from_ref)]
    pub unsafe fn slice_at(&self, offset: usize, size: usize) -> Option<&'static mut [u8]> {
        assert!(offset + size <= self.cap);
        if HEAP {
            return None;
        }
        Some(unsafe { std::slice::from_raw_parts_mut(self.base.add(PAGE + offset), size) })
    }
}
impl Drop for Arena {
    fn drop(&mut self) {
        if let Some((p, n)) = self.last.borrow_mut().take() {
            heap_free_raw(p, n);
        }
        #[cfg(not(miri))]
        if !self.base.is_null() {
            unsafe {
                libc::munmap(self.base.cast(), self.total);
            }
        }
    }
}

/// Exact-size heap buffers (for ASan / Miri, which do their own bounds checking)
pub fn heap_buf(size: usize, fill: u8) -> &'static mut [u8] {
    use std::alloc::{Layout, alloc};
    if size == 0 {
        // aligned dangling
        return unsafe { std::slice::from_raw_parts_mut(std::ptr::without_provenance_mut(64), 0) };
    }
    let layout = Layout::from_size_align(size, 64).unwrap();
    unsafe {
        let p = alloc(layout);
        std::ptr::write_bytes(p, fill, size);
        std::slice::from_raw_parts_mut(p, size)
    }
}
/// Heap buffer together with the allocator's own pointer (to free it later without going
/// through a reference that the user of the slice may have invalidated)
pub fn heap_raw(size: usize, fill: u8) -> ((*mut u8, usize), &'static mut [u8]) {
    if size == 0 {
        return ((null_mut(), 0), heap_buf(0, fill));
    }
    let layout = std::alloc::Layout::from_size_align(size, 64).unwrap();
    unsafe {
        let p = std::alloc::alloc(layout);
        std::ptr::write_bytes(p, fill, size);
        ((p, size), std::slice::from_raw_parts_mut(p, size))
    }
}
pub fn heap_free_raw(p: *mut u8, n: usize) {
    if n > 0 {
        let layout = std::alloc::Layout::from_size_align(n, 64).unwrap();
        unsafe { std::alloc::dealloc(p, layout) };
    }
}
pub fn heap_free(buf: &'static mut [u8]) {
    use std::alloc::{Layout, dealloc};
    if !buf.is_empty() {
        let layout = Layout::from_size_align(buf.len(), 64).unwrap();
        unsafe { dealloc(buf.as_mut_ptr(), layout) };
    }
}
