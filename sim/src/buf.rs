//! Caller-provided metadata buffers, sized exactly and flush against PROT_NONE guard pages.
//! An out-of-bounds access of the allocator hits a guard page and kills the worker (SIGSEGV).

use std::ptr::null_mut;

const PAGE: usize = 4096;

/// One reusable arena: [guard][data ... ][guard]
pub struct Arena {
    base: *mut u8,
    total: usize,
    cap: usize,
}
unsafe impl Send for Arena {}
unsafe impl Sync for Arena {}

impl Arena {
    pub fn new(cap: usize) -> Self {
        let cap = cap.next_multiple_of(PAGE).max(PAGE);
        let total = cap + 2 * PAGE;
        #[cfg(not(miri))]
        unsafe {
            let base = libc::mmap(
                null_mut(),
                total,
                libc::PROT_READ | libc::PROT_WRITE,
                libc::MAP_PRIVATE | libc::MAP_ANONYMOUS,
                -1,
                0,
            );
            assert!(base != libc::MAP_FAILED, "mmap failed");
            let base = base as *mut u8;
            assert!(libc::mprotect(base.cast(), PAGE, libc::PROT_NONE) == 0);
            assert!(libc::mprotect(base.add(PAGE + cap).cast(), PAGE, libc::PROT_NONE) == 0);
            Self { base, total, cap }
        }
        #[cfg(miri)]
        {
            let _ = null_mut::<u8>();
            let layout = std::alloc::Layout::from_size_align(total, PAGE).unwrap();
            let base = unsafe { std::alloc::alloc_zeroed(layout) };
            Self { base, total, cap }
        }
    }
    pub fn cap(&self) -> usize {
        self.cap
    }
    /// A slice of exactly `size` bytes, 64-byte aligned, either ending at the trailing
    /// guard page (`at_end`) or starting right after the leading one.
    /// The contents are filled with `fill`.
    ///
    /// # Safety
    /// The caller must not use two slices of the same arena at the same time.
    #[allow(clippy::mut_from_ref)]
    pub unsafe fn slice(&self, size: usize, at_end: bool, fill: u8) -> &'static mut [u8] {
        assert!(size <= self.cap, "arena too small: {size} > {}", self.cap);
        let start = if at_end && size % 64 == 0 {
            PAGE + self.cap - size
        } else {
            PAGE
        };
        unsafe {
            let p = self.base.add(start);
            std::ptr::write_bytes(p, fill, size);
            std::slice::from_raw_parts_mut(p, size)
        }
    }
    /// Slice at an arbitrary byte offset into the data area (for misalignment / overlap tests)
    #[allow(clippy::mut_from_ref)]
    pub unsafe fn slice_at(&self, offset: usize, size: usize) -> &'static mut [u8] {
        assert!(offset + size <= self.cap);
        unsafe { std::slice::from_raw_parts_mut(self.base.add(PAGE + offset), size) }
    }
}
impl Drop for Arena {
    fn drop(&mut self) {
        #[cfg(not(miri))]
        unsafe {
            libc::munmap(self.base.cast(), self.total);
        }
        #[cfg(miri)]
        unsafe {
            let layout = std::alloc::Layout::from_size_align(self.total, PAGE).unwrap();
            std::alloc::dealloc(self.base, layout);
        }
    }
}

/// Exact-size heap buffers (for ASan / Miri, which do their own bounds checking)
pub fn heap_buf(size: usize, fill: u8) -> &'static mut [u8] {
    use std::alloc::{Layout, alloc};
    if size == 0 {
        // aligned dangling
        return unsafe { std::slice::from_raw_parts_mut(64 as *mut u8, 0) };
    }
    let layout = Layout::from_size_align(size, 64).unwrap();
    unsafe {
        let p = alloc(layout);
        std::ptr::write_bytes(p, fill, size);
        std::slice::from_raw_parts_mut(p, size)
    }
}
pub fn heap_free(buf: &'static mut [u8]) {
    use std::alloc::{Layout, dealloc};
    if !buf.is_empty() {
        let layout = Layout::from_size_align(buf.len(), 64).unwrap();
        unsafe { dealloc(buf.as_mut_ptr(), layout) };
    }
}
