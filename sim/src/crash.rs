//! Crash-point oracle (C05): at every write to the persistent buffer and at every call
//! return, the persistent image is recovered *on the side* (fresh zeroed volatile
//! buffers, `Init::Recover`) and judged against the ledger of completed / in-flight calls.

use std::collections::BTreeMap;

use llfree::{Alloc, FrameId, Init, LLFree};

use crate::exec::{Arenas, Bufs, Call, Config, Outcome, create, guarded, panic_signature, request};
use crate::model::{Block, HUGE_FRAMES};
use crate::oracle::{Violation, frame_bitmap};
use crate::world::{LowerLayout, Region, WriteRec};

#[derive(Clone, Debug)]
pub struct Inflight {
    pub call: Call,
    /// held blocks removed because a free naming (part of) them was started
    pub removed: Vec<Block>,
    /// frame ranges whose bits / huge marker this call changed in the persistent buffer
    pub touched: Vec<(usize, usize)>,
}

/// What completed and in-flight calls imply, independent of allocator state
#[derive(Clone, Debug)]
pub struct Ledger {
    pub frames: usize,
    /// disjoint blocks currently held (completed allocations, no started free)
    pub held: BTreeMap<usize, Block>,
    /// allocation status per frame according to completed calls only
    pub done_alloc: Vec<bool>,
    pub inflight: BTreeMap<usize, Inflight>,
}

impl Ledger {
    pub fn new(frames: usize, alloc_all: bool) -> Self {
        let mut l = Self {
            frames,
            held: BTreeMap::new(),
            done_alloc: vec![alloc_all; frames],
            inflight: BTreeMap::new(),
        };
        if alloc_all {
            let huges = frames / HUGE_FRAMES;
            for h in 0..huges {
                l.held.insert(
                    h * HUGE_FRAMES,
                    Block::new(h * HUGE_FRAMES, crate::model::HUGE_ORDER),
                );
            }
            for f in huges * HUGE_FRAMES..frames {
                l.held.insert(f, Block::new(f, 0));
            }
        }
        l
    }
    pub fn overlapping_pub(&self, b: &Block) -> Vec<Block> {
        self.overlapping(b)
    }
    fn overlapping(&self, b: &Block) -> Vec<Block> {
        let mut out = Vec::new();
        // a held block starting before b may still overlap: scan back at most one block
        if let Some((_, h)) = self.held.range(..b.frame).next_back()
            && h.overlaps(b)
        {
            out.push(*h);
        }
        for (_, h) in self.held.range(b.frame..b.end()) {
            out.push(*h);
        }
        out
    }
    /// Replace a held block by several parts (bookkeeping only, no allocator call)
    pub fn split_held(&mut self, b: &Block, parts: &[Block]) {
        self.held.remove(&b.frame);
        for p in parts {
            self.held.insert(p.frame, *p);
        }
    }
    pub fn invoke(&mut self, id: usize, call: &Call) {
        let mut inf = Inflight {
            call: call.clone(),
            removed: Vec::new(),
            touched: Vec::new(),
        };
        if let Call::Put { frame, order, .. } = call
            && *order < 64
            && frame
                .checked_add(1usize << order)
                .is_some_and(|e| e <= self.frames)
        {
            let b = Block::new(*frame, *order);
            inf.removed = self.overlapping(&b);
            for r in &inf.removed {
                self.held.remove(&r.frame);
            }
        }
        self.inflight.insert(id, inf);
    }
    pub fn ret(&mut self, id: usize, out: &Outcome) {
        let Some(inf) = self.inflight.remove(&id) else {
            return;
        };
        match (&inf.call, out) {
            (Call::Get { order, .. }, Outcome::GetOk { frame, .. }) => {
                let b = Block::new(*frame, *order);
                if b.end() <= self.frames {
                    self.held.insert(b.frame, b);
                    for a in &mut self.done_alloc[b.frame..b.end()] {
                        *a = true;
                    }
                }
            }
            (Call::Put { frame, order, .. }, Outcome::Ok) => {
                let b = Block::new(*frame, *order);
                for h in &inf.removed {
                    if h.contains(&b) {
                        for p in h.minus(&b) {
                            self.held.insert(p.frame, p);
                        }
                    } else if !b.contains(h) {
                        // partial overlap cannot be a valid free; keep conservative: drop
                    }
                }
                // (a free the allocator wrongly accepted may lie outside the range: stay robust)
                if *order < 64 && b.frame < self.frames {
                    let end = b.end().min(self.frames);
                    for a in &mut self.done_alloc[b.frame..end] {
                        *a = false;
                    }
                }
            }
            (Call::Put { .. }, Outcome::Err(_)) => {
                for h in &inf.removed {
                    self.held.insert(h.frame, *h);
                }
            }
            (_, Outcome::Panic { .. } | Outcome::Aborted) => {
                // never completed: stays in flight forever
                self.inflight.insert(id, inf);
            }
            _ => {}
        }
    }
    /// Attribute a persistent write to its call
    pub fn touch(&mut self, layout: &LowerLayout, w: &WriteRec) {
        let Some(id) = w.call else { return };
        let Some(inf) = self.inflight.get_mut(&id) else {
            return;
        };
        match w.region {
            Region::Bitfield => {
                let h = w.off / LowerLayout::BF;
                let base = h * HUGE_FRAMES + (w.off % LowerLayout::BF) * 8;
                let diff = w.old ^ w.new;
                if diff != 0 {
                    let lo = diff.trailing_zeros() as usize;
                    let hi = 64 - diff.leading_zeros() as usize;
                    inf.touched.push((base + lo, hi - lo));
                }
            }
            Region::Table => {
                let rel = w.off - layout.bitfield_bytes;
                let t = rel / LowerLayout::TABLE;
                let j = (rel % LowerLayout::TABLE) / 2;
                if (w.old == 0xffff) != (w.new == 0xffff) && j < crate::model::TREE_HUGE {
                    let h = t * crate::model::TREE_HUGE + j;
                    inf.touched.push((h * HUGE_FRAMES, HUGE_FRAMES));
                }
            }
            _ => {}
        }
    }
    pub fn touched_mask(&self) -> Vec<bool> {
        let mut m = vec![false; self.frames];
        for inf in self.inflight.values() {
            for &(s, l) in &inf.touched {
                for f in s..(s + l).min(self.frames) {
                    m[f] = true;
                }
            }
            if let Call::Put { frame, order, .. } = &inf.call
                && *order < 64
            {
                for f in *frame..frame.saturating_add(1usize << order).min(self.frames) {
                    m[f] = true;
                }
            }
        }
        m
    }
}

pub struct Crash {
    pub cfg: Config,
    pub ledger: Ledger,
    pub arenas: std::sync::Arc<Arenas>,
    pub violations: Vec<Violation>,
    /// evaluate crash points at all (the ledger is always maintained)
    pub enabled: bool,
    /// check "free with original order succeeds" on a re-recovered instance
    pub destructive: bool,
    /// evaluate only every n-th write (1 = all)
    pub stride: u64,
    pub points: u64,
    pub points_inflight: u64,
    pub points_in_split: u64,
    pub max_violations: usize,
    cache_version: u64,
    cache: Option<(Vec<bool>, Vec<Violation>)>,
    /// incremented on every persistent write
    pub version: u64,
    pub samples: Vec<String>,
}

impl Crash {
    pub fn new(cfg: Config, arenas: std::sync::Arc<Arenas>) -> Self {
        let ledger = Ledger::new(cfg.frames, cfg.alloc_all);
        Self {
            cfg,
            ledger,
            arenas,
            violations: Vec::new(),
            enabled: true,
            destructive: true,
            stride: 1,
            points: 0,
            points_inflight: 0,
            points_in_split: 0,
            max_violations: 1,
            cache_version: u64::MAX,
            cache: None,
            version: 0,
            samples: Vec::new(),
        }
    }

    fn recover(&self, image: &[u8]) -> Result<LLFree<'static>, Violation> {
        let bufs: Bufs = unsafe { self.arenas.bufs(&self.cfg, true, 0) };
        bufs.lower.copy_from_slice(image);
        match create(&self.cfg, Init::Recover, bufs) {
            Ok(Ok(a)) => Ok(a),
            Ok(Err(e)) => Err(Violation::new(
                "C05",
                "recover-error",
                format!("recovery returned {e:?}"),
            )),
            Err(Outcome::Panic { msg, loc }) => Err(Violation::new(
                "C05",
                format!("recover-{}", panic_signature(&msg, &loc)),
                format!("recovery panicked: {msg} at {loc}"),
            )),
            Err(_) => Err(Violation::new("C05", "recover-abort", "recovery aborted")),
        }
    }

    /// Evaluate the crash point whose persistent image is `image` with the current ledger.
    /// `label` describes the instant for the violation detail.
    pub fn evaluate(&mut self, image: &[u8], label: &str, allow_destructive: bool) {
        if !self.enabled || self.violations.len() >= self.max_violations {
            return;
        }
        self.points += 1;
        if !self.ledger.inflight.is_empty() {
            self.points_inflight += 1;
        }
        // recover once per image version
        if self.cache_version != self.version || self.cache.is_none() {
            let mut v = Vec::new();
            let bitmap = match self.recover(image) {
                Ok(rec) => {
                    let r = guarded(|| {
                        let mut v = Vec::new();
                        let fast = rec.tree_stats().free_frames;
                        let exact = rec.stats().free_frames;
                        if fast != exact {
                            v.push(Violation::new(
                                "C05",
                                "R3-fast-vs-exact",
                                format!("recovered: tree_stats().free_frames={fast} stats().free_frames={exact}"),
                            ));
                        }
                        (frame_bitmap(&rec, self.cfg.frames), v)
                    });
                    match r {
                        Ok((b, vv)) => {
                            v.extend(vv);
                            if let Err(Outcome::Panic { msg, loc }) = guarded(|| rec.validate()) {
                                v.push(Violation::new(
                                    "C05",
                                    format!("R3-validate-{}", panic_signature(&msg, &loc)),
                                    format!("validate() of the recovered allocator panicked: {msg} at {loc}"),
                                ));
                            }
                            b
                        }
                        Err(Outcome::Panic { msg, loc }) => {
                            v.push(Violation::new(
                                "C05",
                                format!("R3-query-{}", panic_signature(&msg, &loc)),
                                format!(
                                    "query on the recovered allocator panicked: {msg} at {loc}"
                                ),
                            ));
                            Vec::new()
                        }
                        Err(_) => Vec::new(),
                    }
                }
                Err(viol) => {
                    v.push(viol);
                    Vec::new()
                }
            };
            self.cache = Some((bitmap, v));
            self.cache_version = self.version;
        }
        let (bitmap, base_v) = self.cache.clone().unwrap();
        for mut v in base_v {
            v.detail = format!("{label}: {}", v.detail);
            self.violations.push(v);
        }
        if bitmap.len() != self.cfg.frames {
            return;
        }
        // R1: held blocks stay allocated
        for b in self.ledger.held.values() {
            if let Some(f) = (b.frame..b.end()).find(|&f| !bitmap[f]) {
                self.violations.push(Violation::new(
                    "C05",
                    "R1-completed-allocation-lost",
                    format!(
                        "{label}: block (frame {}, order {}) was returned by a completed allocation and no free of it started, but frame {f} is free after recovery",
                        b.frame, b.order
                    ),
                ));
                return;
            }
        }
        // R2: free and untouched frames are free
        // "free" = not covered by any held block. (Under concurrency the order of returns is not
        // the linearisation order: a free may return after a later allocation of the same frame
        // has already returned, so a per-frame flag updated at returns would be wrong.)
        let touched = self.ledger.touched_mask();
        let mut covered = vec![false; self.cfg.frames];
        // blocks a started free names a part of are not checked by R1, but they are not free either
        let removed = self.ledger.inflight.values().flat_map(|i| i.removed.iter());
        for b in self.ledger.held.values().chain(removed) {
            for f in b.frame..b.end().min(self.cfg.frames) {
                covered[f] = true;
            }
        }
        for f in 0..self.cfg.frames {
            if !covered[f] && !touched[f] && bitmap[f] {
                if std::env::var_os("LLSIM_DEBUG").is_some() {
                    eprintln!(
                        "R2 debug: inflight={:?} version={}",
                        self.ledger.inflight, self.version
                    );
                }
                self.violations.push(Violation::new(
                    "C05",
                    "R2-free-frame-allocated",
                    format!(
                        "{label}: frame {f} is free by all completed calls and untouched by in-flight calls, but allocated after recovery"
                    ),
                ));
                return;
            }
        }
        // R1b: held blocks can be freed with their order
        if self.destructive && allow_destructive && !self.ledger.held.is_empty() {
            match self.recover(image) {
                Ok(rec) => {
                    for b in self.ledger.held.values() {
                        let r = guarded(|| rec.put(FrameId(b.frame), request(b.order, 0, None)));
                        match r {
                            Ok(Ok(())) => {}
                            Ok(Err(e)) => {
                                self.violations.push(Violation::new(
                                    "C05",
                                    "R1-free-after-recovery-failed",
                                    format!(
                                        "{label}: put(frame {}, order {}) on the recovered allocator returned {e:?}",
                                        b.frame, b.order
                                    ),
                                ));
                                return;
                            }
                            Err(Outcome::Panic { msg, loc }) => {
                                self.violations.push(Violation::new(
                                    "C05",
                                    format!("R1-free-after-recovery-{}", panic_signature(&msg, &loc)),
                                    format!(
                                        "{label}: put(frame {}, order {}) on the recovered allocator panicked: {msg} at {loc}",
                                        b.frame, b.order
                                    ),
                                ));
                                return;
                            }
                            Err(_) => return,
                        }
                    }
                }
                Err(v) => self.violations.push(v),
            }
        }
    }

    /// A persistent write is about to become visible: `image` is the state right before it.
    pub fn on_write(&mut self, image: &[u8], layout: &LowerLayout, w: &WriteRec) {
        // crash right before this write
        if self.enabled && (self.stride <= 1 || self.version % self.stride == 0) {
            if w.region == Region::Table && w.old == 0xffff && w.new == 0 {
                self.points_in_split += 1;
            }
            let label = format!(
                "crash before persistent write #{} (step {}, thread {}, {:?}+{:#x}: {:#x}->{:#x})",
                self.version, w.step, w.tid, w.region, w.off, w.old, w.new
            );
            self.evaluate(image, &label, false);
        }
        self.ledger.touch(layout, w);
        self.version += 1;
    }
}
