//! Small deterministic PRNG (xoshiro256** seeded through splitmix64).
//! Everything random in the simulator is derived from one of these.

#[derive(Clone, Debug)]
pub struct Rng {
    s: [u64; 4],
}

pub fn splitmix(x: &mut u64) -> u64 {
    *x = x.wrapping_add(0x9e37_79b9_7f4a_7c15);
    let mut z = *x;
    z = (z ^ (z >> 30)).wrapping_mul(0xbf58_476d_1ce4_e5b9);
    z = (z ^ (z >> 27)).wrapping_mul(0x94d0_49bb_1331_11eb);
    z ^ (z >> 31)
}

/// Mix several integers into one seed
pub fn mix(parts: &[u64]) -> u64 {
    let mut h = 0x243f_6a88_85a3_08d3u64;
    for &p in parts {
        let mut x = h ^ p;
        h = splitmix(&mut x).rotate_left(17) ^ p.wrapping_mul(0x9e37_79b9_7f4a_7c15);
    }
    let mut x = h;
    splitmix(&mut x)
}

impl Rng {
    pub fn new(seed: u64) -> Self {
        let mut x = seed;
        let s = [
            splitmix(&mut x),
            splitmix(&mut x),
            splitmix(&mut x),
            splitmix(&mut x),
        ];
        Self { s }
    }
    pub fn next(&mut self) -> u64 {
        let r = self.s[1].wrapping_mul(5).rotate_left(7).wrapping_mul(9);
        let t = self.s[1] << 17;
        self.s[2] ^= self.s[0];
        self.s[3] ^= self.s[1];
        self.s[1] ^= self.s[2];
        self.s[0] ^= self.s[3];
        self.s[2] ^= t;
        self.s[3] = self.s[3].rotate_left(45);
        r
    }
    /// Uniform in 0..n (n > 0)
    pub fn below(&mut self, n: usize) -> usize {
        debug_assert!(n > 0);
        ((self.next() >> 11) % n as u64) as usize
    }
    /// Uniform in lo..=hi
    pub fn range(&mut self, lo: usize, hi: usize) -> usize {
        lo + self.below(hi - lo + 1)
    }
    /// True with probability num/den
    pub fn chance(&mut self, num: usize, den: usize) -> bool {
        self.below(den) < num
    }
    pub fn pick<'a, T>(&mut self, xs: &'a [T]) -> &'a T {
        &xs[self.below(xs.len())]
    }
    /// Pick an index according to integer weights
    pub fn weighted(&mut self, weights: &[usize]) -> usize {
        let total: usize = weights.iter().sum();
        let mut x = self.below(total.max(1));
        for (i, &w) in weights.iter().enumerate() {
            if x < w {
                return i;
            }
            x -= w;
        }
        weights.len() - 1
    }
    pub fn shuffle<T>(&mut self, xs: &mut [T]) {
        for i in (1..xs.len()).rev() {
            let j = self.below(i + 1);
            xs.swap(i, j);
        }
    }
}

/// FNV-1a style incremental hasher with a strong finalizer (deterministic, no std RandomState)
#[derive(Clone, Copy)]
pub struct Hasher(pub u64);
impl Default for Hasher {
    fn default() -> Self {
        Self(0xcbf2_9ce4_8422_2325)
    }
}
impl Hasher {
    pub fn add(&mut self, v: u64) {
        let mut x = self.0 ^ v;
        self.0 = splitmix(&mut x) ^ self.0.rotate_left(23);
    }
    pub fn add_bytes(&mut self, b: &[u8]) {
        for chunk in b.chunks(8) {
            let mut w = [0u8; 8];
            w[..chunk.len()].copy_from_slice(chunk);
            self.add(u64::from_le_bytes(w));
        }
        self.add(b.len() as u64);
    }
    pub fn finish(self) -> u64 {
        let mut x = self.0;
        splitmix(&mut x)
    }
}
