//! Families with their own drivers: Q2 (init sweep, C06), Q4 (search inside one tree, C12),
//! Q8 (zone / persistent wrappers with cold restart, C17), QB (malformed metadata buffers, C08).
//! A case is fully determined by (family, seed, n): replay re-executes it.

use llfree::frame::Frame;
use llfree::wrapper::{NvmAlloc, ZoneAlloc};
use llfree::{Alloc, Error, FrameId, Init, LLFree, MetaData};

use crate::case::{Ctx, RunOut};
use crate::exec::{
    Call, ClassKind, Config, ErrKind, Outcome, create, exec, guarded, panic_signature, request,
};
use crate::json::J;
use crate::model::{Block, HUGE_FRAMES, HUGE_ORDER, Model, TREE_FRAMES, TREE_ORDER};
use crate::oracle::{Props, Violation, check_views, compare_frames};
use crate::rng::{Hasher, Rng};

#[derive(Clone, Debug)]
pub struct SpecialCase {
    pub family: String,
    pub seed: u64,
    /// family specific parameter (Q2: frame count, 0 = draw from seed)
    pub n: usize,
    /// Q2: 0 = draw the init mode, 1 = free-all, 2 = allocate-all
    pub flag: u8,
}

impl SpecialCase {
    pub fn is_special(f: &str) -> bool {
        matches!(f, "Q2" | "Q2dense" | "Q4" | "Q8" | "QB" | "QM" | "QC")
    }
    pub fn generate(family: &str, seed: u64, index: u64) -> Self {
        let dense = family == "Q2dense";
        Self {
            family: family.to_string(),
            seed,
            n: if dense {
                1 + (index as usize / 2) % (4 * TREE_FRAMES)
            } else if family == "Q4" {
                index as usize
            } else {
                0
            },
            flag: if dense { 1 + (index % 2) as u8 } else { 0 },
        }
    }
    pub fn to_json(&self) -> J {
        J::obj()
            .set("kind", "special")
            .set("family", self.family.clone())
            .set("seed", self.seed)
            .set("n", self.n)
            .set("flag", self.flag)
    }
    pub fn from_json(j: &J) -> Option<Self> {
        Some(Self {
            family: j.gs("family").to_string(),
            seed: j.gu("seed"),
            n: j.gu("n") as usize,
            flag: j.gu("flag") as u8,
        })
    }
    pub fn run(&self, ctx: &Ctx, props: Props) -> RunOut {
        let mut out = RunOut::default();
        let mut rng = Rng::new(self.seed);
        match self.family.as_str() {
            "Q2" | "Q2dense" => q2(self, ctx, &mut rng, &mut out),
            "Q4" => q4(self, ctx, &mut rng, &mut out),
            "Q8" => q8(&mut rng, &mut out),
            "QM" => qm(ctx, &mut rng, &mut out),
            "QC" => qc(&mut rng, &mut out),
            _ => qb(ctx, &mut rng, &mut out),
        }
        out.violations.retain(|v| props.has(Props::id(v.prop)));
        out
    }
}

fn bump(out: &mut RunOut, k: &str, v: u64) {
    *out.counters.entry(k.to_string()).or_default() += v;
}

// ------------------------------------------------------------------------------------------
// Q2: free-all / allocate-all initialisation for one frame count (C06)

fn boundary_frames() -> Vec<usize> {
    let mut v = Vec::new();
    for base in [
        64,
        128,
        HUGE_FRAMES,
        2 * HUGE_FRAMES,
        TREE_FRAMES,
        TREE_FRAMES + HUGE_FRAMES,
        2 * TREE_FRAMES,
        3 * TREE_FRAMES,
        4 * TREE_FRAMES,
        2 * TREE_FRAMES + 64,
    ] {
        for d in -3i64..=3 {
            let n = base as i64 + d;
            if n >= 1 && n as usize <= 4 * TREE_FRAMES {
                v.push(n as usize);
            }
        }
    }
    v.extend([1, 2, 3, 63, 65]);
    v.sort();
    v.dedup();
    v
}

fn q2(case: &SpecialCase, ctx: &Ctx, rng: &mut Rng, out: &mut RunOut) {
    let idx = rng.next() as usize;
    let bounds = boundary_frames();
    let frames = if case.n > 0 {
        case.n
    } else if rng.chance(1, 2) {
        bounds[idx % bounds.len()]
    } else {
        rng.range(1, 4 * TREE_FRAMES)
    };
    let kind = if rng.chance(1, 2) {
        ClassKind::Simple
    } else {
        ClassKind::Movable
    };
    let alloc_all = match case.flag {
        1 => false,
        2 => true,
        _ => rng.chance(1, 2),
    };
    let cfg = Config {
        frames,
        alloc_all,
        kind,
        slots: (0..kind.classes()).map(|_| rng.range(1, 2)).collect(),
    };
    let mut h = Hasher::default();
    h.add(frames as u64);
    h.add(alloc_all as u64);
    h.add_bytes(format!("{:?}", cfg.slots).as_bytes());
    out.hash = h.finish();
    out.nontrivial = true;
    out.sample = J::obj()
        .set("family", "Q2")
        .set("config", cfg.to_json())
        .set("schedule", "single-thread");
    let viol = |out: &mut RunOut, sig: &str, d: String| {
        out.violations.push(Violation::new(
            "C06",
            sig.to_string(),
            format!("{cfg:?}: {d}"),
        ));
    };
    let bufs = unsafe {
        ctx.arenas
            .bufs(&cfg, rng.chance(1, 2), rng.below(256) as u8)
    };
    let alloc = match create(&cfg, cfg.init(), bufs) {
        Ok(Ok(a)) => a,
        Ok(Err(e)) => return viol(out, "init-error", format!("new returned {e:?}")),
        Err(Outcome::Panic { msg, loc }) => {
            return viol(
                out,
                &format!("init-{}", panic_signature(&msg, &loc)),
                format!("new panicked: {msg} at {loc}"),
            );
        }
        Err(_) => return,
    };
    let mut vr = Rng::new(1);
    let mut model = if alloc_all {
        Model::new_alloc(frames)
    } else {
        Model::new_free(frames)
    };
    let mut views = |model: &Model, out: &mut RunOut, when: &str| -> bool {
        let mut v = Vec::new();
        check_views(&alloc, model, &mut vr, &mut v);
        if let Ok(Some((f, got, want))) = guarded(|| compare_frames(&alloc, model)) {
            v.push(Violation::new(
                "C06",
                "frame-state",
                format!("frame {f} free={got}, expected free={want}"),
            ));
        }
        let bad = !v.is_empty();
        for x in v {
            out.violations.push(Violation::new(
                "C06",
                format!("{}:{}", when, x.sig),
                format!("{cfg:?} {when}: {}", x.detail),
            ));
        }
        bad
    };
    if views(&model, out, "after-init") {
        return;
    }
    let r = guarded(|| {
        let mut errs: Vec<(String, String)> = Vec::new();
        let mut calls = 0u64;
        if !alloc_all {
            // allocate at base order until it stays out of memory
            let class = 0u8;
            let mut got = 0usize;
            loop {
                let req = request(0, class, Some(0));
                let r = match alloc.get(None, req) {
                    Ok(x) => Ok(x),
                    Err(Error::Memory) => {
                        alloc.drain();
                        alloc.get(None, req)
                    }
                    Err(e) => Err(e),
                };
                calls += 1;
                match r {
                    Ok((f, _)) => {
                        if f.0 >= frames {
                            errs.push((
                                "frame-beyond-range".into(),
                                format!("get returned frame {} >= {frames}", f.0),
                            ));
                            break;
                        }
                        if model.alloc[f.0] {
                            errs.push((
                                "frame-twice".into(),
                                format!("get returned frame {} twice", f.0),
                            ));
                            break;
                        }
                        model.alloc[f.0] = true;
                        got += 1;
                        if got > frames {
                            break;
                        }
                    }
                    Err(Error::Memory) => break,
                    Err(e) => {
                        errs.push(("get-error".into(), format!("get returned {e:?}")));
                        break;
                    }
                }
            }
            if errs.is_empty() && got != frames {
                errs.push((
                    "not-all-frames-allocatable".into(),
                    format!("only {got} of {frames} frames could be allocated"),
                ));
            }
        } else {
            // free every whole huge frame once at huge order, the rest once at base order
            let huges = frames / HUGE_FRAMES;
            let mut order_blocks: Vec<Block> = (0..huges)
                .map(|h| Block::new(h * HUGE_FRAMES, HUGE_ORDER))
                .collect();
            order_blocks.extend((huges * HUGE_FRAMES..frames).map(|f| Block::new(f, 0)));
            for b in &order_blocks {
                let req = request(b.order, 0, if b.frame % 3 == 0 { Some(0) } else { None });
                calls += 2;
                match alloc.put(FrameId(b.frame), req) {
                    Ok(()) => model.apply_put(b),
                    Err(e) => {
                        errs.push((
                            "free-rejected".into(),
                            format!("put({}, order {}) returned {e:?}", b.frame, b.order),
                        ));
                        break;
                    }
                }
                if alloc.put(FrameId(b.frame), req).is_ok() {
                    errs.push((
                        "second-free-accepted".into(),
                        format!("second put({}, order {}) succeeded", b.frame, b.order),
                    ));
                    break;
                }
            }
        }
        (errs, calls)
    });
    match r {
        Ok((errs, calls)) => {
            bump(out, "calls", calls);
            for (sig, d) in errs {
                viol(out, &sig, d);
            }
        }
        Err(Outcome::Panic { msg, loc }) => {
            return viol(
                out,
                &panic_signature(&msg, &loc),
                format!("panicked: {msg} at {loc}"),
            );
        }
        Err(_) => return,
    }
    if out.violations.is_empty() {
        views(
            &model,
            out,
            if alloc_all {
                "after-freeing-everything"
            } else {
                "after-exhaustion"
            },
        );
    }
    if alloc_all && out.violations.is_empty() {
        // everything was freed: now exactly the managed frames must be allocatable again,
        // with mixed orders first (a block must never reach beyond the managed count)
        let mut rr = Rng::new(frames as u64 ^ 0x51);
        let r = guarded(|| {
            let mut errs: Vec<(String, String)> = Vec::new();
            let mut calls = 0u64;
            let mut fails = 0;
            loop {
                let order = if fails == 0 {
                    *rr.pick(&[0usize, 0, 1, 1, 2, 3, 5])
                } else {
                    0
                };
                // a request larger than the managed range is (rightly) an argument error
                let order = if (1usize << order) > frames { 0 } else { order };
                let req = request(order, 0, Some(0));
                let r = match alloc.get(None, req) {
                    Err(Error::Memory) => {
                        alloc.drain();
                        alloc.get(None, req)
                    }
                    r => r,
                };
                calls += 1;
                match r {
                    Ok((f, _)) => {
                        let b = Block::new(f.0, order);
                        if b.end() > frames || !Model::aligned(&b) {
                            errs.push((
                                "block-beyond-range".into(),
                                format!(
                                    "get(order {order}) returned frames {}..{} of {frames}",
                                    b.frame,
                                    b.end()
                                ),
                            ));
                            break;
                        }
                        if !model.is_free_block(&b) {
                            errs.push(("frame-twice".into(), format!("get(order {order}) returned frame {} which is already allocated", f.0)));
                            break;
                        }
                        model.apply_get(&b);
                    }
                    Err(Error::Memory) if order > 0 => fails += 1,
                    Err(Error::Memory) => break,
                    Err(e) => {
                        errs.push(("get-error".into(), format!("get returned {e:?}")));
                        break;
                    }
                }
                if calls as usize > 2 * frames + 16 {
                    break;
                }
            }
            if errs.is_empty() && model.free_frames() != 0 {
                errs.push((
                    "not-all-frames-allocatable".into(),
                    format!(
                        "{} of {frames} frames could not be allocated again",
                        model.free_frames()
                    ),
                ));
            }
            (errs, calls)
        });
        match r {
            Ok((errs, calls)) => {
                bump(out, "calls", calls);
                for (sig, d) in errs {
                    viol(out, &format!("realloc-{sig}"), d);
                }
            }
            Err(Outcome::Panic { msg, loc }) => viol(
                out,
                &panic_signature(&msg, &loc),
                format!("panicked: {msg} at {loc}"),
            ),
            Err(_) => {}
        }
        if out.violations.is_empty() {
            views(&model, out, "after-allocating-everything-again");
        }
    }
    bump(
        out,
        if alloc_all {
            "alloc_all_runs"
        } else {
            "free_all_runs"
        },
        1,
    );
    if frames % HUGE_FRAMES != 0 {
        bump(out, "partial_last_huge_frame", 1);
    }
    if frames % TREE_FRAMES != 0 {
        bump(out, "partial_last_tree", 1);
    }
}

// ------------------------------------------------------------------------------------------
// Q4: directed search inside one tree over structured allocation patterns (C12)

fn q4(case: &SpecialCase, ctx: &Ctx, rng: &mut Rng, out: &mut RunOut) {
    let trees = rng.range(1, 2);
    let frames = (trees * TREE_FRAMES)
        .saturating_sub(if rng.chance(1, 3) {
            rng.range(1, HUGE_FRAMES + 70)
        } else {
            0
        })
        .max(64);
    let cfg = Config {
        frames,
        alloc_all: false,
        kind: ClassKind::Simple,
        slots: vec![1, 1],
    };
    let bufs = unsafe { ctx.arenas.bufs(&cfg, true, 0) };
    let Ok(Ok(alloc)) = create(&cfg, Init::FreeAll, bufs) else {
        out.foreign = Some(Violation::new("C09", "init-failed", format!("{cfg:?}")));
        return;
    };
    let mut model = Model::new_free(frames);
    let t = rng.below(cfg.trees());
    let tree_base = t * TREE_FRAMES;
    let tree_len = model.tree_len(t);
    // ---- build the pattern through the real lower-level API ----
    // bounded-exhaustive sub-modes, enumerated by the run index:
    //  row level:  the tree is full except one row, whose eight 8-frame units take every
    //              one of the 256 free/allocated combinations
    //  huge level: every huge frame of the tree is free / full / has a single allocated frame
    //              (3^TREE_HUGE combinations)
    let idx = case.n;
    let exhaustive: Option<(bool, usize, usize)> = match idx % 4 {
        1 => Some((true, (idx / 4) % 256, rng.below(TREE_FRAMES / 64))),
        3 => Some((
            false,
            (idx / 4) % 3usize.pow(crate::model::TREE_HUGE as u32),
            0,
        )),
        _ => None,
    };
    let unit_order = match exhaustive {
        Some((true, _, _)) => 3,
        Some((false, _, _)) => HUGE_ORDER,
        None => *rng.pick(&[0usize, 2, 3, 5, 6, 7, 9]),
    };
    let unit = 1usize << unit_order;
    let mut pattern = Vec::new();
    let mut built = 0u64;
    let mode = rng.below(4);
    if exhaustive.is_some() {
        bump(out, "exhaustive_pattern_runs", 1);
    }
    let r = guarded(|| {
        let mut f = tree_base;
        while f + unit <= tree_base + tree_len {
            // per aligned sub-block: empty / full / single hole / single bit / random
            let kind = match mode {
                0 => rng.weighted(&[1, 6, 2, 1, 1]),
                1 => rng.weighted(&[3, 3, 1, 1, 2]),
                2 => rng.weighted(&[1, 10, 1, 0, 0]),
                _ => rng.weighted(&[2, 2, 2, 2, 2]),
            };
            let kind = match exhaustive {
                Some((true, pat, row)) => {
                    let rel = f - tree_base;
                    if rel / 64 == row {
                        ((pat >> ((rel % 64) / 8)) & 1 == 0) as usize
                    } else {
                        1
                    }
                }
                Some((false, pat, _)) => {
                    match (pat / 3usize.pow(((f - tree_base) / HUGE_FRAMES) as u32)) % 3 {
                        0 => 0,
                        1 => 1,
                        _ => 3,
                    }
                }
                None => kind,
            };
            pattern.push(kind as u8);
            let mut set = |frame: usize, order: usize, model: &mut Model| -> bool {
                let b = Block::new(frame, order);
                if !model.is_free_block(&b) {
                    return true;
                }
                match alloc.lower.get(
                    llfree::verif::row_id(frame / 64),
                    order,
                    Some(FrameId(frame)),
                ) {
                    Ok(_) => {
                        model.apply_get(&b);
                        true
                    }
                    Err(_) => false,
                }
            };
            let ok = match kind {
                0 => true,
                1 => set(f, unit_order, &mut model),
                2 => {
                    // all but one frame
                    let hole = f + rng.below(unit);
                    (f..f + unit).all(|x| x == hole || set(x, 0, &mut model))
                }
                3 => set(f + rng.below(unit), 0, &mut model),
                _ => (f..f + unit).all(|x| rng.chance(1, 2) || set(x, 0, &mut model)),
            };
            if !ok {
                return Err(format!("building the pattern failed at frame {f}"));
            }
            built += 1;
            f += unit;
        }
        Ok(())
    });
    match r {
        Ok(Ok(())) => {}
        Ok(Err(d)) => {
            out.violations.push(Violation::new(
                "C12",
                "targeted-lower-get-of-free-block-failed",
                format!("{cfg:?}: {d}"),
            ));
            return;
        }
        Err(Outcome::Panic { msg, loc }) => {
            out.violations.push(Violation::new(
                "C12",
                panic_signature(&msg, &loc),
                format!("{cfg:?}: pattern building panicked: {msg} at {loc}"),
            ));
            return;
        }
        Err(_) => return,
    }
    if let Ok(Some((f, got, want))) = guarded(|| compare_frames(&alloc, &model)) {
        out.violations.push(Violation::new(
            "C12",
            "pattern-state",
            format!("{cfg:?}: after building: frame {f} free={got} expected {want}"),
        ));
        return;
    }
    let mut h = Hasher::default();
    h.add(frames as u64);
    h.add(t as u64);
    h.add(unit_order as u64);
    h.add_bytes(&pattern);
    for f in tree_base..tree_base + tree_len {
        h.add(model.alloc[f] as u64);
    }
    out.hash = h.finish();
    out.nontrivial = model.count_alloc() > 0;
    bump(out, "pattern_units", built);
    // ---- probe every order from a hint in every row ----
    let rows = TREE_FRAMES / 64;
    let mut probes = 0u64;
    let mut found = 0u64;
    let mut notfound = 0u64;
    let mut sample = Vec::new();
    let r = guarded(|| -> Option<Violation> {
        for order in 0..=TREE_ORDER {
            for r in 0..rows {
                if tree_base + r * 64 >= frames {
                    break;
                }
                // thin out the hints for the large orders (the hint only selects the first huge frame)
                if order > 6 && r % 4 != 0 && !rng.chance(1, 4) {
                    continue;
                }
                let row = tree_base / 64 + r;
                probes += 1;
                let exists = model.tree_has_free_block(t, order);
                match alloc.lower.get(llfree::verif::row_id(row), order, None) {
                    Err(e) => {
                        notfound += 1;
                        if exists {
                            return Some(Violation::new(
                                "C12",
                                format!(
                                    "search-missed-free-block:o{}",
                                    if order > 6 {
                                        if order >= HUGE_ORDER { "huge" } else { "rows" }
                                    } else {
                                        "row"
                                    }
                                ),
                                format!(
                                    "{cfg:?}: lower.get(row {row}, order {order}) returned {e:?}, but tree {t} contains an aligned free block of that order"
                                ),
                            ));
                        }
                    }
                    Ok(f) => {
                        found += 1;
                        let b = Block::new(f.0, order);
                        if !Model::aligned(&b)
                            || b.tree() != t
                            || b.end() > frames
                            || !model.is_free_block(&b)
                        {
                            return Some(Violation::new(
                                "C12",
                                "search-returned-bad-block",
                                format!(
                                    "{cfg:?}: lower.get(row {row}, order {order}) returned frame {} which is not an aligned free block of tree {t}",
                                    f.0
                                ),
                            ));
                        }
                        if sample.len() < 6 {
                            sample.push(
                                J::obj()
                                    .set("row_hint", row)
                                    .set("order", order)
                                    .set("found", f.0),
                            );
                        }
                        model.apply_get(&b);
                        let exact = probes % 8 == 0;
                        if exact && let Some((x, got, want)) = compare_frames(&alloc, &model) {
                            return Some(Violation::new(
                                "C12",
                                "search-marked-other-frames",
                                format!(
                                    "{cfg:?}: after lower.get(row {row}, order {order}) -> {}: frame {x} free={got} expected {want}",
                                    f.0
                                ),
                            ));
                        }
                        if alloc.lower.is_free(f, order) {
                            return Some(Violation::new(
                                "C12",
                                "search-did-not-mark-block",
                                format!("{cfg:?}: block {} order {order} still free", f.0),
                            ));
                        }
                        if let Err(e) = alloc.lower.put(f, order) {
                            return Some(Violation::new(
                                "C12",
                                "undo-put-failed",
                                format!("{cfg:?}: lower.put({}, {order}) returned {e:?}", f.0),
                            ));
                        }
                        model.apply_put(&b);
                        if exact && let Some((x, got, want)) = compare_frames(&alloc, &model) {
                            return Some(Violation::new(
                                "C12",
                                "undo-state",
                                format!(
                                    "{cfg:?}: after undoing: frame {x} free={got} expected {want}"
                                ),
                            ));
                        }
                    }
                }
            }
        }
        None
    });
    match r {
        Ok(Some(v)) => out.violations.push(v),
        Ok(None) => {}
        Err(Outcome::Panic { msg, loc }) => {
            out.violations.push(Violation::new(
                "C12",
                panic_signature(&msg, &loc),
                format!("{cfg:?}: probing panicked: {msg} at {loc}"),
            ));
        }
        Err(_) => {}
    }
    bump(out, "search_probes", probes);
    bump(out, "search_found", found);
    bump(out, "search_not_found", notfound);
    out.sample = J::obj()
        .set("family", "Q4")
        .set("config", cfg.to_json())
        .set("tree", t)
        .set("pattern_unit_order", unit_order)
        .set("allocated_frames_in_pattern", model.count_alloc())
        .set("probes", J::Arr(sample))
        .set("schedule", "single-thread");
}

// ------------------------------------------------------------------------------------------
// Q8: zone and persistent wrappers (C17)

struct Mapping {
    base: *mut u8,
    len: usize,
}
impl Mapping {
    fn new(len: usize) -> Self {
        let base = unsafe {
            libc::mmap(
                std::ptr::null_mut(),
                len,
                libc::PROT_READ | libc::PROT_WRITE,
                libc::MAP_PRIVATE | libc::MAP_ANONYMOUS | libc::MAP_NORESERVE,
                -1,
                0,
            )
        };
        assert!(base != libc::MAP_FAILED);
        Self {
            base: base.cast(),
            len,
        }
    }
}
impl Drop for Mapping {
    fn drop(&mut self) {
        unsafe { libc::munmap(self.base.cast(), self.len) };
    }
}

fn q8(rng: &mut Rng, out: &mut RunOut) {
    let tree_bytes = Frame::SIZE << TREE_ORDER;
    let trees = rng.range(1, 3);
    // zone length in frames, including the metadata tail and the header page
    let total = trees * TREE_FRAMES
        + if rng.chance(1, 2) {
            rng.range(3, TREE_FRAMES / 2)
        } else {
            rng.range(3, 40)
        };
    let slot = rng.below(3);
    let map = Mapping::new((total + TREE_FRAMES * 4) * Frame::SIZE + tree_bytes);
    let aligned = (map.base as usize).next_multiple_of(tree_bytes) + slot * tree_bytes;
    let kind = if rng.chance(1, 2) {
        ClassKind::Simple
    } else {
        ClassKind::Movable
    };
    let slots: Vec<usize> = (0..kind.classes()).map(|_| rng.range(1, 2)).collect();
    let probe_cfg = Config {
        frames: total,
        alloc_all: false,
        kind,
        slots: slots.clone(),
    };
    let classing = probe_cfg.classing();
    let ms = LLFree::metadata_size(&classing, total);
    let viol = |out: &mut RunOut, sig: &str, d: String| {
        out.violations.push(Violation::new(
            "C17",
            sig.to_string(),
            format!("zone of {total} frames at {aligned:#x}: {d}"),
        ));
    };
    let zone = |len: usize| -> &'static mut [Frame] {
        unsafe { std::slice::from_raw_parts_mut(aligned as *mut Frame, len) }
    };
    let pool = Pool::default();
    let vol = |n: usize| pool.get(n);
    let mut h = Hasher::default();
    h.add(total as u64);
    h.add(slot as u64);
    h.add_bytes(format!("{slots:?}{kind:?}").as_bytes());

    // recover of an untouched region must fail
    match guarded(|| {
        NvmAlloc::<LLFree>::create(zone(total), true, &classing, vol(ms.local), vol(ms.trees))
            .map(|_| ())
    }) {
        Ok(Err(Error::Initialization)) => bump(out, "recover_untouched_rejected", 1),
        Ok(r) => {
            return viol(
                out,
                "recover-of-untouched-region",
                format!("create(recover=true) on an untouched region returned {r:?}"),
            );
        }
        Err(Outcome::Panic { msg, loc }) => {
            return viol(
                out,
                &panic_signature(&msg, &loc),
                format!("create panicked: {msg} at {loc}"),
            );
        }
        Err(_) => return,
    }
    // create
    let nvm = match guarded(|| {
        NvmAlloc::<LLFree>::create(zone(total), false, &classing, vol(ms.local), vol(ms.trees))
    }) {
        Ok(Ok(a)) => a,
        Ok(Err(e)) => return viol(out, "create-error", format!("create returned {e:?}")),
        Err(Outcome::Panic { msg, loc }) => {
            return viol(
                out,
                &panic_signature(&msg, &loc),
                format!("create panicked: {msg} at {loc}"),
            );
        }
        Err(_) => return,
    };
    let managed = nvm.frames();
    let offset = nvm.alloc.offset;
    if offset != aligned / Frame::SIZE {
        return viol(
            out,
            "zone-offset",
            format!("offset {offset} != {}", aligned / Frame::SIZE),
        );
    }
    // the metadata must start at or after the end of the managed frames
    let meta_pages = ms.lower.div_ceil(Frame::SIZE) + 1;
    if managed + meta_pages > total {
        return viol(
            out,
            "managed-frames-overlap-metadata",
            format!("{managed} managed frames + {meta_pages} metadata pages > {total}"),
        );
    }
    let first_meta_frame = offset + total - meta_pages;
    // plain allocator of the same size to run in lock-step
    let cfg = Config {
        frames: managed,
        alloc_all: false,
        kind,
        slots: slots.clone(),
    };
    let pms = LLFree::metadata_size(&classing, managed);
    let plain = match guarded(|| {
        LLFree::new(
            managed,
            Init::FreeAll,
            &classing,
            MetaData {
                local: vol(pms.local),
                trees: vol(pms.trees),
                lower: vol(pms.lower),
            },
        )
    }) {
        Ok(Ok(a)) => a,
        _ => return,
    };
    // a second, volatile zone wrapper with its own offset
    let zoff = rng.range(1, 5) * TREE_FRAMES;
    let zone_alloc = match guarded(|| {
        ZoneAlloc::<LLFree>::create(
            zoff,
            managed,
            Init::FreeAll,
            &classing,
            MetaData {
                local: vol(pms.local),
                trees: vol(pms.trees),
                lower: vol(pms.lower),
            },
        )
    }) {
        Ok(Ok(a)) => a,
        Ok(Err(e)) => {
            return viol(
                out,
                "zone-create-error",
                format!("ZoneAlloc::create returned {e:?}"),
            );
        }
        _ => return,
    };
    // misaligned offset must be rejected
    match guarded(|| {
        ZoneAlloc::<LLFree>::create(
            zoff + rng.range(1, TREE_FRAMES - 1),
            managed,
            Init::FreeAll,
            &classing,
            MetaData {
                local: vol(pms.local),
                trees: vol(pms.trees),
                lower: vol(pms.lower),
            },
        )
        .map(|_| ())
    }) {
        Ok(Err(Error::Initialization)) => bump(out, "misaligned_zone_rejected", 1),
        Ok(r) => {
            return viol(
                out,
                "misaligned-zone-offset-accepted",
                format!("ZoneAlloc::create with an unaligned offset returned {r:?}"),
            );
        }
        _ => return,
    }
    let mut model = Model::new_free(managed);
    let mut held: Vec<Block> = Vec::new();
    let steps = rng.range(10, 60);
    let mut calls = 0u64;
    for _ in 0..steps {
        let class = rng.below(slots.len()) as u8;
        let slot = if rng.chance(1, 4) {
            None
        } else {
            Some(rng.below(slots[class as usize]))
        };
        let order = *rng.pick(&[0usize, 0, 0, 1, 3, 6, 8, 9, 10]);
        let order = order.min(TREE_ORDER);
        let call = match rng.weighted(&[6, 2, 5, 1, 2]) {
            0 => Call::Get {
                target: None,
                order,
                class,
                slot,
            },
            1 => {
                let len = 1usize << order;
                if len > managed {
                    continue;
                }
                Call::Get {
                    target: Some(rng.below(managed / len) * len),
                    order,
                    class,
                    slot,
                }
            }
            2 if !held.is_empty() => {
                let b = held.swap_remove(rng.below(held.len()));
                Call::Put {
                    frame: b.frame,
                    order: b.order,
                    class,
                    slot,
                }
            }
            3 => Call::Drain,
            _ => {
                // frames below the offset must be rejected by the wrappers
                let below = rng.below(offset.min(zoff));
                let c_nvm = shift(
                    &Call::Put {
                        frame: below,
                        order: 0,
                        class,
                        slot,
                    },
                    0,
                );
                for (name, o) in [
                    ("nvm", exec(&nvm, &c_nvm)),
                    ("zone", exec(&zone_alloc, &c_nvm)),
                ] {
                    if o != Outcome::Err(ErrKind::Argument) {
                        return viol(
                            out,
                            "frame-below-offset-accepted",
                            format!("{name}: put of frame {below} below the offset returned {o:?}"),
                        );
                    }
                }
                let c_get = Call::Get {
                    target: Some(below),
                    order: 0,
                    class,
                    slot,
                };
                for (name, o) in [
                    ("nvm", exec(&nvm, &c_get)),
                    ("zone", exec(&zone_alloc, &c_get)),
                ] {
                    if o != Outcome::Err(ErrKind::Argument) {
                        return viol(
                            out,
                            "frame-below-offset-accepted",
                            format!("{name}: get of frame {below} below the offset returned {o:?}"),
                        );
                    }
                }
                bump(out, "below_offset_rejected", 2);
                continue;
            }
        };
        calls += 1;
        let a = exec(&plain, &call);
        let b = exec(&nvm, &shift(&call, offset));
        let c = exec(&zone_alloc, &shift(&call, zoff));
        for (name, off, o) in [("NvmAlloc", offset, &b), ("ZoneAlloc", zoff, &c)] {
            let same = match (&a, o) {
                (
                    Outcome::GetOk {
                        frame: f,
                        class: c1,
                    },
                    Outcome::GetOk {
                        frame: g,
                        class: c2,
                    },
                ) => *g == f + off && c1 == c2,
                (x, y) => x == y,
            };
            if !same {
                return viol(
                    out,
                    "wrapper-result-differs",
                    format!("{call:?}: plain allocator {a:?}, {name} (offset {off}) {o:?}"),
                );
            }
        }
        if let Outcome::Panic { msg, loc } = &a {
            out.foreign = Some(Violation::new(
                "C09",
                panic_signature(msg, loc),
                format!("{call:?} panicked"),
            ));
            return;
        }
        if let (Call::Get { order, .. }, Outcome::GetOk { frame, .. }) = (&call, &b) {
            let end = frame + (1 << order);
            if end > first_meta_frame || *frame < offset {
                return viol(
                    out,
                    "frame-overlaps-metadata",
                    format!(
                        "{call:?} returned frames {frame}..{end}, metadata starts at frame {first_meta_frame}"
                    ),
                );
            }
        }
        match (&call, &a) {
            (Call::Get { order, .. }, Outcome::GetOk { frame, .. }) => {
                let blk = Block::new(*frame, *order);
                if !model.get_allowed(&blk) {
                    out.foreign = Some(Violation::new(
                        "C02",
                        "get-returned-allocated-block",
                        format!("{call:?} -> {a:?}"),
                    ));
                    return;
                }
                model.apply_get(&blk);
                held.push(blk);
            }
            (Call::Put { frame, order, .. }, Outcome::Ok) => {
                model.apply_put(&Block::new(*frame, *order))
            }
            _ => {}
        }
        // queries are forwarded the same way
        if managed > 0 {
            let f = rng.below(managed);
            for order in [0, HUGE_ORDER] {
                let f = f >> order << order;
                let x = plain.stats_at(FrameId(f), order).free_frames;
                let y = nvm.stats_at(FrameId(f + offset), order).free_frames;
                let z = zone_alloc.stats_at(FrameId(f + zoff), order).free_frames;
                if x != y || x != z {
                    return viol(
                        out,
                        "wrapper-query-differs",
                        format!("stats_at({f}, {order}): plain {x}, nvm {y}, zone {z}"),
                    );
                }
            }
            if (nvm.stats().free_frames, nvm.tree_stats().free_frames)
                != (plain.stats().free_frames, plain.tree_stats().free_frames)
            {
                return viol(
                    out,
                    "wrapper-stats-differ",
                    "stats()/tree_stats() differ".to_string(),
                );
            }
        }
    }
    bump(out, "calls", calls * 3);
    h.add_bytes(format!("{:?}", model.count_alloc()).as_bytes());
    h.add(calls);
    // ---- cold restart (quiescent crash): only the zone survives ----
    drop(nvm);
    // wrong size: one frame less or more
    let wrong = if rng.chance(1, 2) {
        total - 1
    } else {
        total + TREE_FRAMES.min(64)
    };
    let wms = LLFree::metadata_size(&classing, wrong);
    match guarded(|| {
        NvmAlloc::<LLFree>::create(zone(wrong), true, &classing, vol(wms.local), vol(wms.trees))
            .map(|_| ())
    }) {
        Ok(Err(Error::Initialization)) => bump(out, "recover_wrong_size_rejected", 1),
        Ok(r) => {
            return viol(
                out,
                "recover-with-different-size",
                format!(
                    "create(recover=true) with {wrong} instead of {total} frames returned {r:?}"
                ),
            );
        }
        Err(Outcome::Panic { msg, loc }) => {
            return viol(
                out,
                &panic_signature(&msg, &loc),
                format!("create panicked: {msg} at {loc}"),
            );
        }
        Err(_) => return,
    }
    // a differently sized region that shares its END (and therefore the header page) with the
    // instance: it starts one tree later or earlier
    for later in [true, false] {
        let (start, len) = if later {
            if total <= TREE_FRAMES + meta_pages + 8 {
                continue;
            }
            (aligned + tree_bytes, total - TREE_FRAMES)
        } else {
            if slot == 0 {
                continue; // no mapped room in front
            }
            (aligned - tree_bytes, total + TREE_FRAMES)
        };
        let z: &'static mut [Frame] =
            unsafe { std::slice::from_raw_parts_mut(start as *mut Frame, len) };
        let zms = LLFree::metadata_size(&classing, len);
        match guarded(|| {
            NvmAlloc::<LLFree>::create(z, true, &classing, vol(zms.local), vol(zms.trees))
                .map(|_| ())
        }) {
            Ok(Err(Error::Initialization)) => bump(out, "recover_same_end_other_size_rejected", 1),
            Ok(r) => {
                return viol(
                    out,
                    "recover-with-different-size",
                    format!(
                        "create(recover=true) on a region of {len} frames that only shares its last (header) page with the instance of {total} frames returned {r:?}"
                    ),
                );
            }
            Err(Outcome::Panic { msg, loc }) => {
                return viol(
                    out,
                    &panic_signature(&msg, &loc),
                    format!("create panicked: {msg} at {loc}"),
                );
            }
            Err(_) => return,
        }
    }
    let rec = match guarded(|| {
        NvmAlloc::<LLFree>::create(zone(total), true, &classing, vol(ms.local), vol(ms.trees))
    }) {
        Ok(Ok(a)) => a,
        Ok(Err(e)) => {
            return viol(
                out,
                "recover-error",
                format!("create(recover=true) on its own instance returned {e:?}"),
            );
        }
        Err(Outcome::Panic { msg, loc }) => {
            return viol(
                out,
                &format!("recover-{}", panic_signature(&msg, &loc)),
                format!("recovery panicked: {msg} at {loc}"),
            );
        }
        Err(_) => return,
    };
    bump(out, "fault_cold_restart", 1);
    let r = guarded(|| {
        if rec.frames() != managed {
            return Some(format!(
                "recovered instance manages {} frames, created one {managed}",
                rec.frames()
            ));
        }
        for f in 0..managed {
            let free = rec.stats_at(FrameId(f + offset), 0).free_frames == 1;
            if free == model.alloc[f] {
                return Some(format!(
                    "frame {f} free={free} after recovery, was free={} before",
                    !model.alloc[f]
                ));
            }
        }
        if rec.stats().free_frames != model.free_frames()
            || rec.tree_stats().free_frames != model.free_frames()
        {
            return Some(format!(
                "free counts after recovery {} / {} (fast), expected {}",
                rec.stats().free_frames,
                rec.tree_stats().free_frames,
                model.free_frames()
            ));
        }
        None
    });
    match r {
        Ok(Some(d)) => viol(out, "recovered-state-differs", d),
        Err(Outcome::Panic { msg, loc }) => viol(
            out,
            &panic_signature(&msg, &loc),
            format!("query after recovery panicked: {msg} at {loc}"),
        ),
        _ => {}
    }
    out.hash = h.finish();
    out.nontrivial = calls > 0;
    out.sample = J::obj()
        .set("family", "Q8")
        .set("zone_frames", total)
        .set("managed_frames", managed)
        .set("zone_base", format!("{aligned:#x}"))
        .set("classing", kind.name())
        .set("calls", calls)
        .set("allocated_at_restart", model.count_alloc())
        .set("schedule", "single-thread");
}

/// Heap buffers that live as long as one run
#[derive(Default)]
struct Pool(std::cell::RefCell<Vec<(*mut u8, usize)>>);
impl Pool {
    fn get(&self, n: usize) -> &'static mut [u8] {
        let b = crate::buf::heap_buf(n, 0);
        self.0.borrow_mut().push((b.as_mut_ptr(), b.len()));
        b
    }
}
impl Drop for Pool {
    fn drop(&mut self) {
        for (p, n) in self.0.borrow_mut().drain(..) {
            crate::buf::heap_free(unsafe { std::slice::from_raw_parts_mut(p, n) });
        }
    }
}

fn shift(c: &Call, off: usize) -> Call {
    match c {
        Call::Get {
            target,
            order,
            class,
            slot,
        } => Call::Get {
            target: target.map(|t| t + off),
            order: *order,
            class: *class,
            slot: *slot,
        },
        Call::Put {
            frame,
            order,
            class,
            slot,
        } => Call::Put {
            frame: frame + off,
            order: *order,
            class: *class,
            slot: *slot,
        },
        c => c.clone(),
    }
}

// ------------------------------------------------------------------------------------------
// QB: construction with malformed metadata buffers (C08)

fn qb(ctx: &Ctx, rng: &mut Rng, out: &mut RunOut) {
    let frames = crate::seq::gen_frames(rng, 3, false);
    let kind = *rng.pick(&[ClassKind::Simple, ClassKind::Movable, ClassKind::Zeroed]);
    let cfg = Config {
        frames,
        alloc_all: rng.chance(1, 2),
        kind,
        slots: (0..kind.classes()).map(|_| rng.range(1, 3)).collect(),
    };
    let classing = cfg.classing();
    let ms = LLFree::metadata_size(&classing, frames);
    let a = &ctx.arenas;
    if unsafe { a.local.slice_at(0, 0) }.is_none() {
        // heap buffer mode (sanitizer builds): arbitrary placement is not available
        return;
    }
    // which buffer is malformed and how
    let which = rng.below(3);
    let fault = rng.below(4);
    let sizes = [ms.local, ms.trees, ms.lower];
    let arenas = [&a.local, &a.trees, &a.lower];
    let mut bufs: Vec<&'static mut [u8]> = Vec::new();
    let mut desc = String::new();
    for i in 0..3 {
        let b = unsafe {
            if i == which {
                match fault {
                    0 => {
                        desc = format!(
                            "buffer {i} one byte short ({} of {})",
                            sizes[i].saturating_sub(1),
                            sizes[i]
                        );
                        arenas[i].slice_at(0, sizes[i].saturating_sub(1)).unwrap()
                    }
                    1 => {
                        let sh = rng.range(1, 63);
                        desc = format!("buffer {i} shifted by {sh} bytes");
                        arenas[i].slice_at(sh, sizes[i]).unwrap()
                    }
                    _ => arenas[i].slice_at(0, sizes[i]).unwrap(),
                }
            } else {
                arenas[i].slice_at(0, sizes[i]).unwrap()
            }
        };
        bufs.push(b);
    }
    let lower = bufs.pop().unwrap();
    let trees = bufs.pop().unwrap();
    let local = bufs.pop().unwrap();
    let (mut local, mut trees, mut lower) = (local, trees, lower);
    if fault >= 2 {
        // overlapping: buffer `which` is placed inside / across another one (same arena)
        let other = (which + 1 + rng.below(2)) % 3;
        let (so, sw) = (sizes[other], sizes[which]);
        if so == 0 || sw == 0 {
            out.nontrivial = false;
            return;
        }
        // both in the arena of `other` (large enough?)
        let ar = arenas[other];
        if so + sw + 128 > ar.cap() {
            return;
        }
        let mode = rng.below(3);
        // `other` at 0.., `which` overlapping its prefix / suffix / inside
        let off = match mode {
            0 => 0,
            1 => (so.saturating_sub(64)) / 64 * 64,
            _ => (so / 2) / 64 * 64,
        };
        desc = format!(
            "buffer {which} overlaps buffer {other} at byte offset {off} (sizes {sw}, {so})"
        );
        let nb = unsafe { ar.slice_at(off, sw) }.unwrap();
        match which {
            0 => local = nb,
            1 => trees = nb,
            _ => lower = nb,
        }
    }
    let expect_fail = sizes[which] > 0;
    let r = guarded(|| {
        LLFree::new(
            frames,
            cfg.init(),
            &classing,
            MetaData {
                local,
                trees,
                lower,
            },
        )
        .map(|_| ())
    });
    let mut h = Hasher::default();
    h.add_bytes(desc.as_bytes());
    h.add(frames as u64);
    out.hash = h.finish();
    out.nontrivial = expect_fail;
    bump(out, "fault_badbuf_constructions", 1);
    match fault {
        0 => bump(out, "badbuf_short", 1),
        1 => bump(out, "badbuf_misaligned", 1),
        _ => bump(out, "badbuf_overlapping", 1),
    }
    out.sample = J::obj()
        .set("family", "QB")
        .set("config", cfg.to_json())
        .set("fault", desc.clone());
    if !expect_fail {
        return;
    }
    match r {
        Ok(Err(Error::Initialization)) => {}
        Ok(other) => out.violations.push(Violation::new(
            "C08",
            format!(
                "bad-buffer-accepted:{}",
                match fault {
                    0 => "short",
                    1 => "misaligned",
                    _ => "overlap",
                }
            ),
            format!(
                "{cfg:?}: {desc}: LLFree::new returned {other:?} instead of Err(Initialization)"
            ),
        )),
        Err(Outcome::Panic { msg, loc }) => out.violations.push(Violation::new(
            "C08",
            format!("bad-buffer-{}", panic_signature(&msg, &loc)),
            format!("{cfg:?}: {desc}: LLFree::new panicked: {msg} at {loc}"),
        )),
        Err(_) => {}
    }
}

// ------------------------------------------------------------------------------------------
// QM: metadata size sweep (C18): many more trees than the other families use, frame counts and
// slot counts around the rounding boundaries of the three size computations; every buffer is
// exactly as large as requested and flush against a guard page, and the first / last / a random
// tree are touched through every kind of call.

fn qm(ctx: &Ctx, rng: &mut Rng, out: &mut RunOut) {
    // tree counts around multiples of 16 (one cache line of tree entries) up to 70 trees
    let t = match rng.below(4) {
        0 => *rng.pick(&[15usize, 16, 17, 31, 32, 33, 47, 48, 49, 63, 64, 65]),
        1 => rng.range(1, 8),
        _ => rng.range(1, 70),
    };
    let rem = match rng.below(5) {
        0 => 0,
        1 => rng.range(1, 3),
        2 => {
            rng.range(1, TREE_FRAMES / HUGE_FRAMES) * HUGE_FRAMES
                - if rng.chance(1, 2) {
                    0
                } else {
                    rng.range(1, 65)
                }
        }
        3 => TREE_FRAMES - rng.range(1, 65),
        _ => rng.range(1, TREE_FRAMES - 1),
    };
    let frames = (t * TREE_FRAMES + rem).max(1)
        - if rem == 0 && rng.chance(1, 8) {
            TREE_FRAMES - 1
        } else {
            0
        };
    let kind = *rng.pick(&[ClassKind::Simple, ClassKind::Movable, ClassKind::Zeroed]);
    let cfg = Config {
        frames,
        alloc_all: rng.chance(1, 2),
        kind,
        slots: (0..kind.classes())
            .map(|_| *rng.pick(&[0usize, 1, 1, 2, 3, 4, 7, 8]))
            .collect(),
    };
    let mut h = Hasher::default();
    h.add(frames as u64);
    h.add(cfg.alloc_all as u64);
    h.add_bytes(format!("{:?}{kind:?}", cfg.slots).as_bytes());
    out.hash = h.finish();
    out.nontrivial = true;
    out.sample = J::obj()
        .set("family", "QM")
        .set("config", cfg.to_json())
        .set("schedule", "single-thread");
    bump(out, "metadata_sweep_configs", 1);
    let at_end = rng.chance(2, 3);
    let bufs = unsafe { ctx.arenas.bufs(&cfg, at_end, rng.below(256) as u8) };
    let alloc = match create(&cfg, cfg.init(), bufs) {
        Ok(Ok(a)) => a,
        Ok(Err(e)) => {
            out.violations.push(Violation::new(
                "C18",
                "init-error",
                format!("{cfg:?}: new returned {e:?}"),
            ));
            return;
        }
        Err(Outcome::Panic { msg, loc }) => {
            out.violations.push(Violation::new(
                "C18",
                format!("init-{}", panic_signature(&msg, &loc)),
                format!("{cfg:?}: new panicked: {msg} at {loc}"),
            ));
            return;
        }
        Err(_) => return,
    };
    let trees = cfg.trees();
    let mut calls = 0u64;
    let r = guarded(|| {
        for tree in [0, trees - 1, rng.below(trees)] {
            let base = tree * TREE_FRAMES;
            let len = frames.saturating_sub(base).min(TREE_FRAMES);
            for _ in 0..3 {
                let class = rng.below(cfg.slots.len()) as u8;
                let n = cfg.slots[class as usize];
                let slot = if n == 0 || rng.chance(1, 3) {
                    None
                } else {
                    Some(rng.below(n))
                };
                let order = *rng.pick(&[0usize, 0, 3, 6, HUGE_ORDER]);
                let l = 1usize << order;
                let f = if len >= l {
                    base + rng.below(len / l) * l
                } else {
                    base
                };
                let last = base + len - 1;
                let _ = alloc.stats_at(FrameId(last), 0);
                let _ = alloc.stats_at(FrameId(last), HUGE_ORDER);
                let _ = alloc.stats_at(FrameId(base), TREE_ORDER);
                if cfg.alloc_all {
                    let _ = alloc.put(FrameId(f), request(order, class, slot));
                    let _ = alloc.put(FrameId(last), request(0, class, slot));
                }
                if let Ok((g, _)) = alloc.get(Some(FrameId(f)), request(order, class, slot)) {
                    let _ = alloc.put(g, request(order, class, None));
                }
                if let Ok((g, _)) = alloc.get(Some(FrameId(last)), request(0, class, slot)) {
                    let _ = alloc.put(g, request(0, class, slot));
                }
                if let Ok((g, _)) = alloc.get(None, request(order, class, slot)) {
                    let _ = alloc.put(g, request(order, class, slot));
                }
                let _ = alloc.change_tree(
                    llfree::TreeMatch {
                        id: Some(llfree::TreeId(tree)),
                        class: None,
                        free: 0,
                    },
                    llfree::TreeChange {
                        class: Some(llfree::Class(class)),
                        operation: None,
                    },
                );
                calls += 10;
            }
        }
        alloc.drain();
        let _ = alloc.stats();
        let _ = alloc.tree_stats();
        alloc.validate();
    });
    bump(out, "calls", calls);
    if let Err(Outcome::Panic { msg, loc }) = r {
        out.foreign = Some(Violation::new(
            "C09",
            panic_signature(&msg, &loc),
            format!("{cfg:?}: {msg} at {loc}"),
        ));
    }
}

// ------------------------------------------------------------------------------------------
// QC: class configurations whose class ids are not 0..n (C08: "its class is not configured").
// 1-3 configured classes with ids drawn from 0..8 (ordered policy of the repository's zeroed
// example, default = highest id); a short seeded history with configured classes builds state, calls
// naming a class id that is not configured are mixed in: each must return the invalid-argument
// error and leave counts, per-class statistics and the touched frames unchanged.

fn qc(rng: &mut Rng, out: &mut RunOut) {
    use llfree::{Class, Classing, Request};
    let k = rng.range(1, 3);
    let mut ids: Vec<u8> = Vec::new();
    while ids.len() < k {
        let c = rng.below(8) as u8;
        if !ids.contains(&c) {
            ids.push(c);
        }
    }
    ids.sort();
    let classes: Vec<(Class, usize)> = ids.iter().map(|&c| (Class(c), rng.range(0, 3))).collect();
    let frames = crate::seq::gen_frames(rng, 3, false);
    let classing = Classing::new(&classes, Class(*ids.last().unwrap()), ClassKind::Zeroed.policy());
    let mut h = Hasher::default();
    h.add(frames as u64);
    h.add_bytes(format!("{classes:?}").as_bytes());
    out.sample = J::obj()
        .set("family", "QC")
        .set("frames", frames)
        .set("classes", format!("{classes:?}"))
        .set("schedule", "single-thread");
    bump(out, "sparse_class_configs", (ids.iter().enumerate().any(|(i, &c)| c as usize != i)) as u64);
    let ms = LLFree::metadata_size(&classing, frames);
    let init = if rng.chance(1, 3) { Init::AllocAll } else { Init::FreeAll };
    let alloc = match guarded(|| LLFree::new(frames, init, &classing, MetaData::alloc(&ms))) {
        Ok(Ok(a)) => a,
        Ok(Err(e)) => {
            out.violations.push(Violation::new("C09", "init-error", format!("LLFree::new({frames}, {classes:?}) returned {e:?}")));
            return;
        }
        Err(Outcome::Panic { msg, loc }) => {
            out.violations.push(Violation::new("C09", format!("init-{}", panic_signature(&msg, &loc)), format!("LLFree::new({frames}, {classes:?}) panicked: {msg} at {loc}")));
            return;
        }
        Err(_) => return,
    };
    let unconfigured: Vec<u8> = (0u8..8).filter(|c| !ids.contains(c)).collect();
    let mut held: Vec<(usize, usize)> = Vec::new();
    if init == Init::AllocAll {
        for hf in 0..frames / HUGE_FRAMES {
            held.push((hf * HUGE_FRAMES, HUGE_ORDER));
        }
    }
    let snapshot = |a: &LLFree, probe: usize| -> Option<String> {
        guarded(|| {
            let s = a.stats();
            let t = a.tree_stats();
            let f = a.stats_at(FrameId(probe.min(frames - 1)), 0);
            format!("{} {} {t:?} {}", s.free_frames, s.free_huge, f.free_frames)
        })
        .ok()
    };
    let steps = rng.range(10, 40);
    for step in 0..steps {
        let order = *rng.pick(&[0usize, 0, 0, 1, 3, 6, HUGE_ORDER, HUGE_ORDER + 1]);
        if rng.chance(1, 3) && !unconfigured.is_empty() {
            // ---- a call naming a class that is not configured ----
            let class = *rng.pick(&unconfigured);
            let slot = if rng.chance(1, 2) { None } else { Some(rng.below(3)) };
            let req = Request::new(order, Class(class), slot);
            let span = (frames >> order).max(1);
            let target = (rng.below(span) << order).min(frames - 1);
            let before = snapshot(&alloc, target);
            let what;
            let res = match rng.below(3) {
                0 => {
                    what = format!("get(None, {req:?})");
                    guarded(|| alloc.get(None, req).map(|_| ()))
                }
                1 => {
                    what = format!("get(Some({target}), {req:?})");
                    guarded(|| alloc.get(Some(FrameId(target)), req).map(|_| ()))
                }
                _ => {
                    let (f, o) = if held.is_empty() { (target, order) } else { held[rng.below(held.len())] };
                    let req = Request::new(o, Class(class), slot);
                    what = format!("put({f}, {req:?})");
                    guarded(|| alloc.put(FrameId(f), req))
                }
            };
            bump(out, "fault_badarg_calls", 1);
            h.add_bytes(what.as_bytes());
            match res {
                Ok(Err(Error::Argument)) => {
                    if snapshot(&alloc, target) != before {
                        out.violations.push(Violation::new(
                            "C08",
                            "rejected-call-changed-counters",
                            format!("classes {classes:?}, step {step}: {what} was rejected but counts / statistics changed"),
                        ));
                        break;
                    }
                }
                Ok(r) => {
                    out.violations.push(Violation::new(
                        "C08",
                        "invalid-argument-not-rejected",
                        format!("classes {classes:?} (class {class} is not configured), step {step}: {what} returned {r:?}"),
                    ));
                    break;
                }
                Err(Outcome::Panic { msg, loc }) => {
                    out.violations.push(Violation::new(
                        "C08",
                        format!("invalid-argument-{}", panic_signature(&msg, &loc)),
                        format!("classes {classes:?}, step {step}: {what} panicked: {msg} at {loc}"),
                    ));
                    break;
                }
                Err(_) => break,
            }
        } else {
            // ---- a valid call with a configured class (builds state; not judged here) ----
            let (class, n) = classes[rng.below(classes.len())];
            let slot = if n == 0 || rng.chance(1, 3) { None } else { Some(rng.below(n)) };
            let r = if held.is_empty() || rng.chance(3, 5) {
                let order = order.min(TREE_ORDER);
                if (1usize << order) > frames {
                    continue;
                }
                guarded(|| alloc.get(None, Request::new(order, class, slot)).map(|(f, _)| held.push((f.0, order))))
            } else if rng.chance(1, 8) {
                guarded(|| {
                    alloc.drain();
                    Ok(())
                })
            } else {
                let (f, o) = held.swap_remove(rng.below(held.len()));
                guarded(|| alloc.put(FrameId(f), Request::new(o, class, slot)))
            };
            bump(out, "calls", 1);
            if r.is_err() {
                break; // a panic on a valid call is C09's business
            }
        }
    }
    h.add(held.len() as u64);
    out.hash = h.finish();
    out.nontrivial = true;
}
