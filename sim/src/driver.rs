//! Check driver: plans per property, sharded worker processes, aggregation, replay
//! confirmation, minimisation, known findings and the evidence file.

use std::collections::{BTreeMap, BTreeSet};
use std::io::Write;
use std::path::{Path, PathBuf};
use std::process::{Command, Stdio};
use std::time::Instant;

use crate::case::{Case, Ctx, minimise};
use crate::json::J;
use crate::oracle::Props;
use crate::rng::mix;

pub const DEFAULT_SEED: u64 = 20260921;

pub struct Part {
    pub family: &'static str,
    pub quick: u64,
    pub thorough: u64,
}
fn p(family: &'static str, quick: u64, thorough: u64) -> Part {
    Part {
        family,
        quick,
        thorough,
    }
}

pub struct Plan {
    pub prop: &'static str,
    pub level: &'static str,
    pub parts: Vec<Part>,
    pub rule: &'static str,
    pub assumptions: Vec<&'static str>,
}

const CONC_RULE: &str = "each run = seeded configuration + sequential setup + symbolic per-thread programs + one seeded schedule (uniform / PCT / burst / after-write / stall, optional spurious weak-CAS failures; family KE derives cases from earlier ones that reached new metadata states: recorded schedule prefix + seeded tail, injected preemption, changed operations or faults) executed on the real allocator under the token scheduler; distinct = distinct hash of (programs, setup, config, full sequence of (thread, region, offset, op, success) atomic steps); non-trivial = at least one cross-thread conflict (two threads touching the same metadata word, one of them writing)";
const SEQ_RULE: &str = "each run = seeded configuration + one seeded sequential history executed call by call against the reference model; distinct = distinct hash of the concrete (call, result) sequence; non-trivial = at least one state-changing (or, for C08, rejected malformed) call";

const BASE_ASSUME: [&str; 3] = [
    "sampled, not exhaustive: a clean batch is evidence, not proof",
    "only sequentially consistent executions on x86-64 (threads are serialised by the scheduler); no weak-memory or relaxed-persistency effects",
    "hook in llfree::atomic (feature verif) is semantically transparent: try_update/update run as an explicit load + compare-exchange loop",
];

pub fn plan(prop: &str) -> Option<Plan> {
    let conc = |q: u64, t: u64| -> Vec<Part> {
        vec![
            p("K1", q, t),
            p("K2", q, t),
            p("K3", q, t),
            p("K4", q, t),
            p("K5", q, t),
            p("K6", q, t),
            p("K7", q, t),
            p("K8", q, t),
            p("KE", q, t),
            p("K9", q, t),
        ]
    };
    let mut assumptions: Vec<&'static str> = BASE_ASSUME.to_vec();
    let (level, parts, rule): (&str, Vec<Part>, &str) = match prop {
        "C01" => {
            let mut v = conc(7000, 800_000);
            v.push(p("Q1", 3000, 200_000));
            ("exploration", v, CONC_RULE)
        }
        "C02" => ("exploration", vec![p("Q1", 100_000, 3_000_000)], SEQ_RULE),
        "C03" => {
            let mut v = conc(6000, 600_000);
            v[2].quick = 14_000;
            v[2].thorough = 1_500_000;
            ("exploration", v, CONC_RULE)
        }
        "C04" => {
            let mut v = conc(4000, 300_000);
            v.push(p("Q1", 12_000, 600_000));
            v.push(p("Q5", 5000, 200_000));
            v.push(p("Q9", 5000, 200_000));
            ("exploration", v, CONC_RULE)
        }
        "C05" => {
            assumptions.push("strict persistency: every write before the crash point is durable, none after; volatile buffers come back zeroed");
            let mut v = conc(3500, 150_000);
            v.push(p("Q1crash", 15_000, 500_000));
            (
                "fault_enumeration",
                v,
                "crash fault enumerated at every persistent write (and after every call return) of each explored history / interleaving; histories and interleavings themselves are seeded samples; distinct/non-trivial counted per run as for the sequential and concurrent families (a run is non-trivial if it has at least one persistent write, i.e. at least one mid-history crash point)",
            )
        }
        "C06" => (
            "exploration",
            vec![
                p("Q2", 6000, 0),
                p("Q2dense", 0, 8 * llfree::TREE_FRAMES as u64),
            ],
            "one run = one (frame count, init mode, classing, slots) configuration driven through init, exhaustion / free-everything and all accounting views; distinct = distinct (frames, mode, slots); every run is non-trivial; schedule: single-thread",
        ),
        "C07" => ("exploration", vec![p("Q7", 60_000, 1_500_000)], SEQ_RULE),
        "C08" => (
            "exploration",
            vec![p("Q6", 50_000, 1_500_000), p("QB", 50_000, 500_000), p("QC", 20_000, 100_000)],
            SEQ_RULE,
        ),
        "C09" => (
            "exploration",
            vec![p("Q1open", 100_000, 3_000_000)],
            SEQ_RULE,
        ),
        "C10" => {
            let mut v = vec![p("Q9", 25_000, 1_000_000)];
            v.extend([
                p("K3", 3000, 200_000),
                p("K4", 3000, 200_000),
                p("K5", 3000, 200_000),
                p("K7", 3000, 200_000),
                p("K9", 6000, 300_000),
            ]);
            ("exploration", v, SEQ_RULE)
        }
        "C11" => ("exploration", vec![p("Q3", 3000, 150_000)], SEQ_RULE),
        "C12" => (
            "exploration",
            vec![p("Q4", 4000, 100_000)],
            "one run = one structured allocation pattern of a tree built through the lower-level API, then a directed search for every order from a hint in every row; distinct = distinct pattern bitmap; non-trivial = pattern has allocated frames; schedule: single-thread",
        ),
        "C13" => {
            let mut v = conc(2500, 200_000);
            v[7].quick = 25_000;
            v[7].thorough = 1_500_000;
            v.push(p("Q13", 15_000, 600_000));
            v.push(p("Q1", 8000, 300_000));
            ("exploration", v, CONC_RULE)
        }
        "C14" => (
            "exploration",
            vec![
                p("Q1", 25_000, 800_000),
                p("Q5", 12_000, 300_000),
                p("Q9", 12_000, 300_000),
            ],
            SEQ_RULE,
        ),
        "C15" => (
            "exploration",
            vec![
                p("Q5", 60_000, 1_500_000),
                p("K4", 12_000, 600_000),
                p("K9", 12_000, 600_000),
            ],
            SEQ_RULE,
        ),
        "C17" => (
            "exploration",
            vec![p("Q8", 15_000, 400_000)],
            "one run = one zone (size, aligned base address, classing) with NvmAlloc, ZoneAlloc and a plain LLFree driven in lock-step by a seeded history, then a cold restart; distinct = distinct (zone, history) hash; schedule: single-thread",
        ),
        "C18" => {
            let mut v = conc(2500, 200_000);
            v.extend([
                p("Q1open", 10_000, 500_000),
                p("Q2", 600, 20_000),
                p("Q6", 4000, 200_000),
                p("Q7", 3000, 200_000),
                p("QB", 3000, 100_000),
                p("QM", 40_000, 2_000_000),
            ]);
            assumptions.push("memory oracle of this tier: every metadata buffer is exactly metadata_size bytes and flush against a PROT_NONE guard page (alternating leading / trailing); an out-of-bounds access kills the worker");
            ("exploration", v, CONC_RULE)
        }
        "C21" => {
            let mut v = conc(6000, 600_000);
            v[2].quick = 10_000;
            ("exploration", v, CONC_RULE)
        }
        _ => return None,
    };
    Some(Plan {
        prop: match prop {
            "C01" => "C01",
            "C02" => "C02",
            "C03" => "C03",
            "C04" => "C04",
            "C05" => "C05",
            "C06" => "C06",
            "C07" => "C07",
            "C08" => "C08",
            "C09" => "C09",
            "C10" => "C10",
            "C11" => "C11",
            "C12" => "C12",
            "C13" => "C13",
            "C14" => "C14",
            "C15" => "C15",
            "C17" => "C17",
            "C18" => "C18",
            _ => "C21",
        },
        level,
        parts,
        rule,
        assumptions,
    })
}

/// Name of the compile-time geometry of this binary (cargo feature of llsim)
pub fn geometry_name() -> &'static str {
    if cfg!(feature = "th1") {
        "th1"
    } else if cfg!(feature = "th2") {
        "th2"
    } else if cfg!(feature = "th8") {
        "th8"
    } else if cfg!(feature = "k16") {
        "k16"
    } else {
        "default"
    }
}

/// The llsim binary built for another geometry, next to this one (built on demand)
fn binary_for(geo: &str) -> Option<PathBuf> {
    let exe = std::env::current_exe().ok()?;
    let rel = exe.parent()?; // .../release
    let up = rel.parent()?; // target or target/<geo>
    let target = if geometry_name() == "default" { up.to_path_buf() } else { up.parent()?.to_path_buf() };
    let (dir, bin) = if geo == "default" {
        (target.clone(), target.join("release/llsim"))
    } else {
        (target.join(geo), target.join(geo).join("release/llsim"))
    };
    if !bin.exists() {
        let mut c = Command::new("cargo");
        c.args(["build", "--release", "--offline"]);
        if geo != "default" {
            c.args(["--features", geo]);
        }
        c.arg("--target-dir").arg(&dir).current_dir(target.parent()?);
        c.env("CARGO_NET_OFFLINE", "true").stdout(Stdio::null()).stderr(Stdio::null());
        let _ = c.status();
    }
    bin.exists().then_some(bin)
}

pub fn root() -> PathBuf {
    PathBuf::from(std::env::var("LLSIM_ROOT").unwrap_or_else(|_| "/verif".into()))
}

fn fam_id(f: &str) -> u64 {
    f.bytes()
        .fold(7u64, |a, b| a.wrapping_mul(131).wrapping_add(b as u64))
}

pub fn run_seed(seed: u64, family: &str, index: u64) -> u64 {
    mix(&[seed, fam_id(family), index])
}

/// The oracles enabled for a check: only the property itself
/// (C18 additionally needs nothing: its oracle is the guard page).
fn props_for(prop: &str) -> Props {
    Props::of(&[Props::id(prop)])
}

// ------------------------------------------------------------------------------------------
// worker

pub fn worker(args: &[String]) -> i32 {
    let prop = &args[0];
    let tier = &args[1];
    let seed: u64 = args[2].parse().unwrap();
    let shard: u64 = args[3].parse().unwrap();
    let nshards: u64 = args[4].parse().unwrap();
    let outdir = PathBuf::from(&args[5]);
    let time_cap: f64 = args.get(6).and_then(|s| s.parse().ok()).unwrap_or(1e9);
    let plan = plan(prop).expect("unknown property");
    let props = props_for(prop);
    crate::case::THOROUGH.store(tier != "quick", std::sync::atomic::Ordering::Relaxed);
    let ctx = Ctx::new();
    let start = Instant::now();
    let mut counters: BTreeMap<String, u64> = BTreeMap::new();
    let mut hashes: Vec<u64> = Vec::new();
    let mut states: BTreeSet<u64> = BTreeSet::new();
    let mut found: BTreeMap<String, J> = BTreeMap::new();
    let mut foreign: BTreeMap<String, u64> = BTreeMap::new();
    let mut samples: Vec<J> = Vec::new();
    let mut per_family: BTreeMap<String, u64> = BTreeMap::new();
    let mut evaluations = 0u64;
    let mut truncated = false;
    let cur_path = outdir.join(format!("w{shard}.cur"));
    let mut cur = std::fs::File::create(&cur_path).unwrap();
    let state_cap = 2_000_000usize;
    for part in &plan.parts {
        // "geo": the additional compile-time geometries of the thorough tier
        let runs = match tier.as_str() {
            "thorough" => part.thorough,
            "geo" => (part.quick * 3).max(part.thorough.min(3000)),
            // one other geometry next to the default one in the quick tier (C02 C05 C06 C12)
            "geoq" => (part.quick / 3).max(200).min(part.quick),
            _ => part.quick,
        };
        let mut fam_samples = 0;
        let evolving = part.family == "KE";
        let indices: Vec<u64> = if evolving {
            crate::conc::ke_indices(runs, shard, nshards)
        } else {
            (shard..runs).step_by(nshards as usize).collect()
        };
        let mut evolve = crate::conc::Evolve::default();
        for index in indices {
            if start.elapsed().as_secs_f64() > time_cap {
                truncated = true;
                break;
            }
            let rs = run_seed(seed, part.family, index);
            {
                use std::os::unix::fs::FileExt;
                let line = format!("{:<10}{:>20}{:>24}\n", part.family, index, rs);
                let _ = cur.write_at(line.as_bytes(), 0);
            }
            let (mut case, gen_steps) = if evolving {
                (
                    Case::Conc(evolve.next(index, rs, &crate::case::gen_opts(props))),
                    None,
                )
            } else {
                Case::generate(part.family, rs, index, props)
            };
            let out = case.run(&ctx, props, gen_steps);
            if let (true, Case::Conc(c)) = (evolving, &case) {
                evolve.feedback(index, c, &out.state_hashes);
            }
            evaluations += 1;
            *per_family.entry(part.family.to_string()).or_default() += 1;
            for (k, v) in &out.counters {
                if k == "solo_max_steps_seen" {
                    let e = counters.entry(k.clone()).or_default();
                    *e = (*e).max(*v);
                } else {
                    *counters.entry(k.clone()).or_default() += v;
                }
            }
            if out.nontrivial {
                hashes.push(out.hash);
                if fam_samples < 1 && shard == 0 && !matches!(out.sample, J::Null) {
                    samples.push(
                        out.sample
                            .clone()
                            .set("run_index", index)
                            .set("run_seed", rs),
                    );
                    fam_samples += 1;
                }
            }
            if states.len() < state_cap {
                states.extend(out.state_hashes.iter().copied());
            }
            if let Some(v) = &out.foreign {
                *foreign.entry(format!("{}:{}", v.prop, v.sig)).or_default() += 1;
            }
            for v in &out.violations {
                let key = format!("{}:{}", v.prop, v.sig);
                let e = found.entry(key).or_insert_with(|| {
                    case.freeze();
                    J::obj()
                        .set("property", v.prop)
                        .set("signature", v.sig.clone())
                        .set("detail", v.detail.clone())
                        .set("family", part.family)
                        .set("run_index", index)
                        .set("run_seed", rs)
                        .set("verif_seed", seed)
                        .set("geometry", geometry_name())
                        .set("count", 0u64)
                        .set("case", case.to_json())
                });
                let c = e.gu("count") + 1;
                e.put("count", c);
            }
        }
        if evolving {
            *counters.entry("evolve_fresh_cases".into()).or_default() += evolve.fresh;
            *counters.entry("evolve_mutated_cases".into()).or_default() += evolve.mutated;
            *counters
                .entry("evolve_cases_kept_for_new_states".into())
                .or_default() += evolve.kept;
        }
    }
    hashes.sort_unstable();
    hashes.dedup();
    let write_bin = |name: &str, v: &[u64]| {
        let mut f = std::fs::File::create(outdir.join(name)).unwrap();
        let mut buf = Vec::with_capacity(v.len() * 8);
        for x in v {
            buf.extend_from_slice(&x.to_le_bytes());
        }
        f.write_all(&buf).unwrap();
    };
    write_bin(&format!("w{shard}.hashes"), &hashes);
    let st: Vec<u64> = states.into_iter().collect();
    write_bin(&format!("w{shard}.states"), &st);
    let res = J::obj()
        .set("evaluations", evaluations)
        .set("truncated_by_time", truncated)
        .set("wall_s", start.elapsed().as_secs_f64())
        .set(
            "counters",
            J::Obj(counters.into_iter().map(|(k, v)| (k, J::from(v))).collect()),
        )
        .set(
            "per_family",
            J::Obj(
                per_family
                    .into_iter()
                    .map(|(k, v)| (k, J::from(v)))
                    .collect(),
            ),
        )
        .set(
            "foreign",
            J::Obj(foreign.into_iter().map(|(k, v)| (k, J::from(v))).collect()),
        )
        .set("found", J::Arr(found.into_values().collect()))
        .set("samples", J::Arr(samples));
    std::fs::write(outdir.join(format!("w{shard}.json")), res.to_string()).unwrap();
    let _ = std::fs::remove_file(cur_path);
    0
}

// ------------------------------------------------------------------------------------------
// known findings

pub struct Known {
    pub entries: Vec<J>,
}
impl Known {
    pub fn load() -> Self {
        let path = root().join("known_findings.json");
        let entries = std::fs::read_to_string(path)
            .ok()
            .and_then(|s| J::parse(&s).ok())
            .and_then(|j| j.get("findings").and_then(J::arr).cloned())
            .unwrap_or_default();
        Self { entries }
    }
    /// entry with status "known" matching this property + signature
    pub fn matches(&self, prop: &str, sig: &str) -> Option<&J> {
        self.entries.iter().find(|e| {
            e.gs("status") == "known" && e.gs("property") == prop && e.gs("signature") == sig
        })
    }
}

// ------------------------------------------------------------------------------------------
// replay

/// Re-execute a replay file in this process. Returns (reproduced, observed signatures)
pub fn replay_here(file: &Path) -> Result<(bool, Vec<String>), String> {
    let s = std::fs::read_to_string(file).map_err(|e| e.to_string())?;
    let j = J::parse(&s)?;
    let prop = j.gs("property").to_string();
    let sig = j.gs("signature").to_string();
    let mut case = Case::from_json(j.get("case").ok_or("no case")?).ok_or("bad case")?;
    let ctx = Ctx::new();
    let out = case.run(&ctx, props_for(&prop), None);
    let sigs: Vec<String> = out
        .violations
        .iter()
        .map(|v| format!("{}:{}", v.prop, v.sig))
        .collect();
    for v in &out.violations {
        println!(
            "observed: property={} signature={} :: {}",
            v.prop, v.sig, v.detail
        );
    }
    Ok((
        out.violations
            .iter()
            .any(|v| v.prop == prop && v.sig == sig),
        sigs,
    ))
}

pub fn replay_cmd(file: &Path) -> i32 {
    let s = match std::fs::read_to_string(file) {
        Ok(s) => s,
        Err(e) => {
            eprintln!("cannot read {file:?}: {e}");
            return 2;
        }
    };
    let Ok(j) = J::parse(&s) else {
        eprintln!("cannot parse {file:?}");
        return 2;
    };
    // a case recorded by the build for another compile-time geometry: hand over to that build
    let geo = match j.gs("geometry") {
        "" => "default",
        g => g,
    };
    if geo != geometry_name() && j.gs("expect") != "command" {
        return match binary_for(geo) {
            Some(bin) => {
                println!("geometry {geo}: replaying with {}", bin.display());
                match Command::new(bin).arg("replay").arg(file).status() {
                    Ok(st) => st.code().unwrap_or(2),
                    Err(e) => {
                        eprintln!("{e}");
                        2
                    }
                }
            }
            None => {
                eprintln!("cannot build llsim for geometry {geo}");
                2
            }
        };
    }
    if j.get("case").is_some_and(|c| c.gs("kind") == "trace") {
        return crate::trace::replay_trace(&j, file);
    }
    if j.gs("expect") == "command" {
        // memory-checker tier (ASan / Miri): the replay is the recorded command line
        let cmd = j.gs("reproduce");
        println!("running: {cmd}");
        let out = Command::new("sh").arg("-c").arg(cmd).output();
        return match out {
            Ok(o) => {
                let txt = format!(
                    "{}{}",
                    String::from_utf8_lossy(&o.stdout),
                    String::from_utf8_lossy(&o.stderr)
                );
                if txt.contains("Undefined Behavior") || txt.contains("ERROR: AddressSanitizer") {
                    println!(
                        "VIOLATION property={} replay={}",
                        j.gs("property"),
                        file.display()
                    );
                    println!("reproduced: the memory checker reported an error again");
                    1
                } else {
                    println!("not reproduced (exit status {})", o.status);
                    0
                }
            }
            Err(e) => {
                eprintln!("{e}");
                2
            }
        };
    }
    if j.gs("expect") == "signal" {
        // the case is expected to kill the process: run it in a child
        let st = Command::new(std::env::current_exe().unwrap())
            .arg("replay-raw")
            .arg(file)
            .stdout(Stdio::null())
            .status();
        return match st {
            Ok(st) if st.code().is_none() => {
                println!(
                    "VIOLATION property={} replay={}",
                    j.gs("property"),
                    file.display()
                );
                println!("reproduced: the run was killed by a signal ({st})");
                1
            }
            Ok(_) => {
                println!("not reproduced: the run finished normally");
                0
            }
            Err(e) => {
                eprintln!("{e}");
                2
            }
        };
    }
    match replay_here(file) {
        Ok((true, _)) => {
            println!(
                "VIOLATION property={} replay={}",
                j.gs("property"),
                file.display()
            );
            println!("reproduced: signature {}", j.gs("signature"));
            1
        }
        Ok((false, sigs)) => {
            println!(
                "not reproduced: expected {}:{}, observed {sigs:?}",
                j.gs("property"),
                j.gs("signature")
            );
            0
        }
        Err(e) => {
            eprintln!("replay error: {e}");
            2
        }
    }
}

fn confirm_in_fresh_process(file: &Path) -> bool {
    let out = Command::new(std::env::current_exe().unwrap())
        .arg("replay")
        .arg(file)
        .output();
    matches!(out, Ok(o) if o.status.code() == Some(1))
}

// ------------------------------------------------------------------------------------------
// parent

fn read_bin(path: &Path) -> Vec<u64> {
    std::fs::read(path)
        .map(|b| {
            b.chunks_exact(8)
                .map(|c| u64::from_le_bytes(c.try_into().unwrap()))
                .collect()
        })
        .unwrap_or_default()
}

fn sanitize(s: &str) -> String {
    s.chars()
        .map(|c| {
            if c.is_ascii_alphanumeric() || c == '-' {
                c
            } else {
                '_'
            }
        })
        .take(60)
        .collect()
}

pub fn check(prop: &str, tier: &str) -> i32 {
    let Some(plan) = plan(prop) else {
        eprintln!("no check for property {prop}");
        return 2;
    };
    let seed: u64 = std::env::var("VERIF_SEED")
        .ok()
        .and_then(|s| s.parse().ok())
        .unwrap_or(DEFAULT_SEED);
    let nshards: u64 = std::env::var("LLSIM_WORKERS")
        .ok()
        .and_then(|s| s.parse().ok())
        .unwrap_or(16);
    let time_cap: f64 = std::env::var("LLSIM_TIME_CAP")
        .ok()
        .and_then(|s| s.parse().ok())
        .unwrap_or(match tier {
            "thorough" => 1200.0,
            "geo" => 240.0,
            "geoq" => 40.0,
            _ => 75.0,
        });
    let start = Instant::now();
    println!("llsim check {prop} tier={tier} VERIF_SEED={seed} workers={nshards}");
    let tmp = root()
        .join("sim/target/tmp")
        .join(format!("{prop}-{tier}-{}", std::process::id()));
    let _ = std::fs::remove_dir_all(&tmp);
    std::fs::create_dir_all(&tmp).unwrap();
    let exe = std::env::current_exe().unwrap();
    let children: Vec<_> = (0..nshards)
        .map(|s| {
            Command::new(&exe)
                .args([
                    "worker",
                    prop,
                    tier,
                    &seed.to_string(),
                    &s.to_string(),
                    &nshards.to_string(),
                ])
                .arg(&tmp)
                .arg(time_cap.to_string())
                .stdout(Stdio::null())
                .spawn()
                .expect("spawn worker")
        })
        .collect();
    let mut harness_errors: Vec<String> = Vec::new();
    let mut signal_cases: Vec<J> = Vec::new();
    for (s, mut c) in children.into_iter().enumerate() {
        let st = c.wait().unwrap();
        if !st.success() {
            // killed by a signal or crashed: attribute to the run it announced
            let cur = std::fs::read_to_string(tmp.join(format!("w{s}.cur"))).unwrap_or_default();
            let f: Vec<&str> = cur.split_whitespace().collect();
            if st.code().is_none() && f.len() == 3 {
                signal_cases.push(
                    J::obj()
                        .set("family", f[0])
                        .set("run_index", f[1].parse::<u64>().unwrap_or(0))
                        .set("run_seed", f[2].parse::<u64>().unwrap_or(0))
                        .set("status", format!("{st}")),
                );
            } else {
                harness_errors.push(format!("worker {s} failed: {st} (last run: {cur:?})"));
            }
        }
    }
    // ---- aggregate ----
    let mut evaluations = 0u64;
    let mut counters: BTreeMap<String, u64> = BTreeMap::new();
    let mut per_family: BTreeMap<String, u64> = BTreeMap::new();
    let mut foreign: BTreeMap<String, u64> = BTreeMap::new();
    let mut found: BTreeMap<String, J> = BTreeMap::new();
    let mut samples: Vec<J> = Vec::new();
    let mut hashes: Vec<u64> = Vec::new();
    let mut states: Vec<u64> = Vec::new();
    let mut truncated = false;
    for s in 0..nshards {
        let Ok(txt) = std::fs::read_to_string(tmp.join(format!("w{s}.json"))) else {
            continue;
        };
        let Ok(j) = J::parse(&txt) else {
            harness_errors.push(format!("worker {s}: unreadable result"));
            continue;
        };
        evaluations += j.gu("evaluations");
        truncated |= j.get("truncated_by_time").and_then(J::b).unwrap_or(false);
        let merge = |dst: &mut BTreeMap<String, u64>, key: &str| {
            if let Some(J::Obj(m)) = j.get(key) {
                for (k, v) in m {
                    if k == "solo_max_steps_seen" {
                        let e = dst.entry(k.clone()).or_default();
                        *e = (*e).max(v.u().unwrap_or(0));
                    } else {
                        *dst.entry(k.clone()).or_default() += v.u().unwrap_or(0);
                    }
                }
            }
        };
        merge(&mut counters, "counters");
        merge(&mut per_family, "per_family");
        merge(&mut foreign, "foreign");
        for f in j.garr("found") {
            let key = format!("{}:{}", f.gs("property"), f.gs("signature"));
            match found.get_mut(&key) {
                Some(e) => {
                    let c = e.gu("count") + f.gu("count");
                    if (f.gs("family"), f.gu("run_index")) < (e.gs("family"), e.gu("run_index")) {
                        *e = f.clone();
                    }
                    e.put("count", c);
                }
                None => {
                    found.insert(key, f.clone());
                }
            }
        }
        samples.extend(j.garr("samples").iter().cloned());
        hashes.extend(read_bin(&tmp.join(format!("w{s}.hashes"))));
        states.extend(read_bin(&tmp.join(format!("w{s}.states"))));
    }
    hashes.sort_unstable();
    hashes.dedup();
    states.sort_unstable();
    states.dedup();

    // ---- violations: known findings, confirmation, minimisation ----
    let known = Known::load();
    let replay_dir = root().join("replays");
    std::fs::create_dir_all(&replay_dir).unwrap();
    let mut violations = 0u64;
    let mut lines: Vec<String> = Vec::new();
    let mut known_hit: BTreeSet<String> = BTreeSet::new();
    let mut reported: Vec<J> = Vec::new();
    let ctx = Ctx::new();
    // worker deaths by signal (report a few, the rest are the same story)
    if signal_cases.len() > 3 {
        println!(
            "  {} workers were killed by a signal; reporting the first 3",
            signal_cases.len()
        );
    }
    for sc in signal_cases.iter().take(3) {
        let fam = sc.gs("family").to_string();
        let (case, _) =
            Case::generate(&fam, sc.gu("run_seed"), sc.gu("run_index"), props_for(prop));
        let is_mem = prop == "C18";
        let file = replay_dir.join(format!(
            "{prop}-signal-{}-{}.json",
            sanitize(&fam),
            sc.gu("run_index")
        ));
        let rec = J::obj()
            .set("property", prop)
            .set("signature", "killed-by-signal")
            .set("expect", "signal")
            .set(
                "detail",
                format!(
                    "the worker executing this run was killed: {}",
                    sc.gs("status")
                ),
            )
            .set("family", fam.clone())
            .set("run_index", sc.gu("run_index"))
            .set("run_seed", sc.gu("run_seed"))
            .set("verif_seed", seed)
            .set("geometry", geometry_name())
            .set("case", case.to_json());
        std::fs::write(&file, rec.to_pretty()).unwrap();
        if is_mem || matches!(prop, "C03" | "C09" | "C21") {
            if let Some(k) = known.matches(prop, "killed-by-signal") {
                known_hit.insert(format!("KNOWN-FINDING: property={prop} {}", k.gs("what")));
            } else if confirm_in_fresh_process(&file) {
                violations += 1;
                lines.push(format!(
                    "VIOLATION property={prop} replay={}",
                    file.display()
                ));
            } else {
                harness_errors.push(format!(
                    "worker death in {fam} run {} did not reproduce",
                    sc.gu("run_index")
                ));
            }
        } else {
            harness_errors.push(format!(
                "memory fault / abort in {fam} run {} ({}): nothing else can be judged on corrupted memory - run the C18 check (replay: {})",
                sc.gu("run_index"),
                sc.gs("status"),
                file.display()
            ));
        }
    }
    let mut minimised = 0;
    for (key, f) in &found {
        let vprop = f.gs("property").to_string();
        let sig = f.gs("signature").to_string();
        if vprop != prop {
            continue;
        }
        if let Some(k) = known.matches(&vprop, &sig) {
            known_hit.insert(format!(
                "KNOWN-FINDING: property={vprop} {} [signature {sig}, seen in {} runs]",
                k.gs("what"),
                f.gu("count")
            ));
            continue;
        }
        // unknown violation: write the replay file, confirm in a fresh process, then minimise
        let name = format!("{vprop}-{}-{}", sanitize(&sig), f.gu("run_seed"));
        let file = replay_dir.join(format!("{name}.json"));
        std::fs::write(&file, f.to_pretty()).unwrap();
        if !confirm_in_fresh_process(&file) {
            harness_errors.push(format!(
                "violation {key} (run {} of {}) did not reproduce from {}",
                f.gu("run_index"),
                f.gs("family"),
                file.display()
            ));
            continue;
        }
        let mut final_file = file.clone();
        if minimised < 4 {
            minimised += 1;
            if let Some(case) = f.get("case").and_then(Case::from_json) {
                let (small, tries) = minimise(&case, &ctx, props_for(prop), &vprop, &sig, 1500);
                let mut small2 = small.clone();
                let out = small2.run(&ctx, props_for(prop), None);
                if let Some(v) = out
                    .violations
                    .iter()
                    .find(|v| v.prop == vprop && v.sig == sig)
                {
                    small2.freeze();
                    let min_file = replay_dir.join(format!("{name}.min.json"));
                    let rec = f
                        .clone()
                        .set("case", small2.to_json())
                        .set("detail", v.detail.clone())
                        .set("minimised", true)
                        .set("minimiser_executions", tries)
                        .set("unminimised", file.display().to_string());
                    std::fs::write(&min_file, rec.to_pretty()).unwrap();
                    if confirm_in_fresh_process(&min_file) {
                        final_file = min_file;
                    }
                }
            }
        }
        violations += 1;
        lines.push(format!(
            "VIOLATION property={vprop} replay={}",
            final_file.display()
        ));
        println!(
            "  {key}: {} (seen in {} runs)",
            f.gs("detail"),
            f.gu("count")
        );
        reported.push(
            J::obj()
                .set("signature", sig)
                .set("runs", f.gu("count"))
                .set("replay", final_file.display().to_string()),
        );
    }
    for l in &known_hit {
        println!("{l}");
    }
    for l in &lines {
        println!("{l}");
    }
    let wall = start.elapsed().as_secs_f64();

    // ---- evidence ----
    let mut faults = BTreeMap::new();
    let mut probes = BTreeMap::new();
    for (k, v) in &counters {
        if k.starts_with("fault_") {
            faults.insert(k.clone(), J::from(*v));
        } else {
            probes.insert(k.clone(), J::from(*v));
        }
    }
    let zero_probes: Vec<J> = counters
        .iter()
        .filter(|(k, v)| **v == 0 && !k.starts_with("strategy_"))
        .map(|(k, _)| J::from(k.clone()))
        .collect();
    let steps = counters.get("sim_steps").copied().unwrap_or(0);
    let coverage = J::obj()
        .set("evaluations", evaluations)
        .set("distinct_nontrivial", hashes.len())
        .set("rule", plan.rule)
        .set("samples", J::Arr(samples.into_iter().take(6).collect()))
        .set("runs_per_family", J::Obj(per_family.into_iter().map(|(k, v)| (k, J::from(v))).collect()))
        .set("runs_per_hour", (evaluations as f64 / wall.max(0.001) * 3600.0) as u64)
        .set("seeds_per_hour", (evaluations as f64 / wall.max(0.001) * 3600.0) as u64)
        .set("simulated_time_atomic_steps", steps)
        .set("distinct_metadata_states_reached", states.len())
        .set("state_measure", "XOR-folded hash over all (region, offset, value) words of the three metadata buffers, updated at every changed atomic write and sampled into a set (capped per worker)")
        .set("faults_fired", J::Obj(faults))
        .set("counters_and_probes", J::Obj(probes))
        .set("probes_stuck_at_zero", J::Arr(zero_probes))
        .set("runs_ended_by_other_property_violation", J::Obj(foreign.into_iter().map(|(k, v)| (k, J::from(v))).collect()))
        .set("truncated_by_time_cap", truncated)
        .set("exhaustive", false)
        .set("known_findings_seen", J::Arr(known_hit.iter().map(|s| J::from(s.clone())).collect()))
        .set("violations_reported", J::Arr(reported))
        .set(
            "real_vs_stub",
            J::obj()
                .set("real", "llfree core built from /repo/core with feature verif: LLFree, Lower, Bitfield, Trees, Locals, Atom (with hook), ZoneAlloc, NvmAlloc")
                .set("simulated", "caller threads (generated programs), OS scheduler (token scheduler, one runnable thread at a time), persistent memory (byte buffer + snapshot at every write, strict persistency), physical frames (numbers only)"),
        )
        .set("harness_errors", J::Arr(harness_errors.iter().map(|s| J::from(s.clone())).collect()));
    let ev = J::obj()
        .set("property_id", prop)
        .set("tier", tier)
        .set("seed", seed)
        .set("level", plan.level)
        .set("coverage", coverage)
        .set(
            "assumptions",
            J::Arr(plan.assumptions.iter().map(|s| J::from(*s)).collect()),
        )
        .set("wall_s", wall)
        .set("violations", violations);
    let evdir = root().join("evidence");
    std::fs::create_dir_all(&evdir).unwrap();
    let evfile = evdir.join(format!("{prop}.json"));
    if let Ok(geo) = std::env::var("LLSIM_GEOMETRY") {
        // an additional geometry build of the thorough tier: merge into the existing evidence
        let mut base = std::fs::read_to_string(&evfile)
            .ok()
            .and_then(|s| J::parse(&s).ok())
            .unwrap_or(ev.clone());
        let sub = J::obj()
            .set(
                "geometry",
                format!(
                    "{geo}: TREE_HUGE={} HUGE_ORDER={} TREE_FRAMES={}",
                    llfree::TREE_HUGE,
                    llfree::HUGE_ORDER,
                    llfree::TREE_FRAMES
                ),
            )
            .set(
                "evaluations",
                ev.get("coverage").map(|c| c.gu("evaluations")).unwrap_or(0),
            )
            .set(
                "distinct_nontrivial",
                ev.get("coverage")
                    .map(|c| c.gu("distinct_nontrivial"))
                    .unwrap_or(0),
            )
            .set("violations", violations)
            .set("wall_s", wall)
            .set(
                "faults_fired",
                ev.get("coverage")
                    .and_then(|c| c.get("faults_fired"))
                    .cloned()
                    .unwrap_or(J::Null),
            );
        let total_v = base.gu("violations") + violations;
        let total_w = base.get("wall_s").and_then(J::f).unwrap_or(0.0) + wall;
        if let J::Obj(m) = &mut base {
            if let Some(J::Obj(c)) = m.get_mut("coverage") {
                let g = c.entry("other_geometries".to_string()).or_insert(J::obj());
                g.put(&geo, sub);
            }
            m.insert("violations".into(), J::from(total_v));
            m.insert("wall_s".into(), J::from(total_w));
        }
        std::fs::write(&evfile, base.to_pretty()).unwrap();
    } else {
        std::fs::write(&evfile, ev.to_pretty()).unwrap();
    }
    let _ = std::fs::remove_dir_all(&tmp);
    println!(
        "{prop} {tier}: {evaluations} runs, {} distinct non-trivial, {} states, {steps} steps, {wall:.1}s, violations={violations}, known={}",
        hashes.len(),
        states.len(),
        known_hit.len()
    );
    if !harness_errors.is_empty() {
        for e in &harness_errors {
            println!("HARNESS-ERROR: {e}");
        }
        if violations == 0 {
            return 2;
        }
    }
    if violations > 0 { 1 } else { 0 }
}
