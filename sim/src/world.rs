//! The simulated world: token scheduler over real threads, hook entry points,
//! write log with shadow copies of the metadata buffers, fault injection state.
//!
//! Exactly one simulated thread holds the run token at any time; every `before`
//! hook is a scheduling decision taken by the token holder from the run's PRNG
//! (or from a recorded schedule on replay). Everything in [`World`] is only
//! touched by the token holder (or by the main thread while no simulated
//! thread runs), so one execution is a pure function of seed and code.

use std::cell::Cell;
use std::panic::panic_any;
use std::ptr::null;
use std::sync::atomic::{AtomicUsize, Ordering};
use std::sync::{Mutex, MutexGuard};
use std::thread::Thread;

use llfree::verif::Op;

use crate::model::{HUGE_FRAMES, TREE_HUGE};
use crate::rng::{Hasher, Rng};

pub const MAIN: usize = usize::MAX;
pub const MAX_THREADS: usize = 4;

/// Panic payload used to unwind a simulated thread out of the allocator
/// when the run is aborted (step cap, solo budget, abort after a foreign panic).
pub struct SimAbort;

#[derive(Clone, Debug, PartialEq)]
pub enum Strategy {
    Uniform,
    /// PCT with the given priority change points (step indices)
    Pct {
        change: Vec<u64>,
    },
    /// stay on the current thread with probability (den-1)/den
    Burst {
        den: usize,
    },
    /// preempt preferably right after a successful write of the running thread (between two
    /// related updates), otherwise stay with probability (den-1)/den
    AfterWrite {
        den: usize,
    },
    /// `tid` is descheduled from step `from` until all others are done (or `len` steps passed)
    Stall {
        tid: usize,
        from: u64,
        len: u64,
    },
    /// follow the recorded schedule
    Replay,
}

#[derive(Clone, Copy, Debug, PartialEq, Eq)]
pub enum Region {
    Bitfield,
    Table,
    Trees,
    Locals,
    Other,
}

#[derive(Clone, Debug)]
pub struct WriteRec {
    pub step: u64,
    pub tid: usize,
    pub call: Option<usize>,
    pub region: Region,
    pub off: usize,
    pub size: usize,
    pub old: u64,
    pub new: u64,
}

#[derive(Clone, Copy, Debug, Default)]
pub struct BufRange {
    pub start: usize,
    pub len: usize,
}
impl BufRange {
    pub fn of(b: &[u8]) -> Self {
        Self {
            start: b.as_ptr() as usize,
            len: b.len(),
        }
    }
    fn off(&self, addr: usize) -> Option<usize> {
        (addr >= self.start && addr < self.start + self.len).then(|| addr - self.start)
    }
}

/// Geometry of the persistent buffer
#[derive(Clone, Copy, Debug, Default)]
pub struct LowerLayout {
    pub frames: usize,
    pub bitfield_bytes: usize,
    pub table_bytes: usize,
}
impl LowerLayout {
    pub const BF: usize = HUGE_FRAMES / 8;
    pub const TABLE: usize = (TREE_HUGE * 2).next_multiple_of(64);
    pub fn new(frames: usize) -> Self {
        Self {
            frames,
            bitfield_bytes: frames.div_ceil(HUGE_FRAMES) * Self::BF,
            table_bytes: frames.div_ceil(crate::model::TREE_FRAMES) * Self::TABLE,
        }
    }
    pub fn size(&self) -> usize {
        self.bitfield_bytes + self.table_bytes
    }
}

#[derive(Clone, Debug, Default)]
pub struct Probes {
    pub cas_fail_row: u64,
    pub cas_fail_table: u64,
    pub cas_fail_tree: u64,
    pub cas_fail_local: u64,
    pub huge_marker_set: u64,
    pub huge_marker_cleared_to_zero: u64,
    pub huge_marker_freed: u64,
    pub row_fill: u64,
    pub row_clear: u64,
    pub casfail_injected: u64,
    pub preemptions: u64,
    pub stall_fired: u64,
    pub solo_windows: u64,
    pub solo_max_steps: u64,
    pub crash_points: u64,
    pub crash_in_flight: u64,
    pub crash_in_split: u64,
}
impl Probes {
    pub fn fields(&self) -> Vec<(&'static str, u64)> {
        vec![
            ("cas_fail_bitfield_row", self.cas_fail_row),
            ("cas_fail_huge_entry", self.cas_fail_table),
            ("cas_fail_tree_entry", self.cas_fail_tree),
            ("cas_fail_local_entry", self.cas_fail_local),
            ("huge_marker_set", self.huge_marker_set),
            (
                "huge_split_marker_to_zero",
                self.huge_marker_cleared_to_zero,
            ),
            ("huge_marker_freed", self.huge_marker_freed),
            ("bitfield_row_filled", self.row_fill),
            ("bitfield_row_cleared", self.row_clear),
            ("fault_casfail_fired", self.casfail_injected),
            ("fault_preemptions", self.preemptions),
            ("fault_stall_fired", self.stall_fired),
            ("fault_solo_windows", self.solo_windows),
            ("solo_max_steps_seen", self.solo_max_steps),
            ("fault_crash_points", self.crash_points),
            ("crash_with_call_in_flight", self.crash_in_flight),
            ("crash_inside_huge_split", self.crash_in_split),
        ]
    }
}

#[derive(Clone, Copy, Debug, PartialEq, Eq)]
pub enum AbortReason {
    StepCap,
    SoloBudget {
        tid: usize,
        steps: u64,
    },
    /// one call took more atomic steps of its own than any bounded retry can explain
    CallBudget {
        tid: usize,
        steps: u64,
    },
    Foreign,
}

pub struct World {
    pub n: usize,
    pub rng: Rng,
    pub strat: Strategy,
    pub alive: Vec<bool>,
    pub started: Vec<bool>,
    pub cur_call: Vec<Option<usize>>,
    pub steps: u64,
    pub step_cap: u64,
    /// own atomic steps of the current call per thread, and their cap
    pub call_steps: Vec<u64>,
    pub call_cap: u64,
    /// address of the allocator under test (0 = none): lets the observer read a tree entry
    /// through the public API right before a tree-change call's compare-exchange on it
    pub alloc_ptr: usize,
    /// per thread: the call in flight is a tree change (change_tree)
    pub cur_change: Vec<bool>,
    /// per thread: (tree, was reserved) read right before the pending compare-exchange
    pub pending_change: Vec<Option<(usize, bool)>>,
    /// a tree-change call's compare-exchange succeeded on an entry that was reserved: (thread, tree, step)
    pub change_on_reserved: Option<(usize, usize, u64)>,
    /// did the last atomic operation of each thread change memory?
    pub last_write: Vec<bool>,
    pub prev_load: Vec<bool>,
    pub sched_log: Vec<u8>,
    pub replay: Vec<u8>,
    pub replay_pos: usize,
    /// strategy to continue with once the recorded prefix is used up
    pub replay_then: Option<Strategy>,
    pub last: usize,
    // pct
    pub prio: Vec<u32>,
    // solo
    pub solo_points: Vec<(u64, usize)>,
    pub solo_active: Option<(usize, u64)>,
    pub solo_budget: u64,
    // spurious cas failures
    pub casfail_den: usize,
    pub casfail_replay: Option<Vec<u64>>,
    pub casfail_log: Vec<u64>,
    // buffers
    pub lower: BufRange,
    pub trees: BufRange,
    pub locals: BufRange,
    pub layout: LowerLayout,
    pub shadow_lower: Vec<u8>,
    pub shadow_trees: Vec<u8>,
    pub shadow_locals: Vec<u8>,
    pub track_volatile: bool,
    pub writes: Vec<WriteRec>,
    pub keep_writes: bool,
    pub persist_writes: u64,
    // measures
    pub trace_hash: Hasher,
    pub state_hash: u64,
    pub state_hashes: Vec<u64>,
    pub state_sample: u64,
    pub last_access: Vec<(u8, bool)>,
    pub conflicts: u64,
    pub probes: Probes,
    pub aborted: Option<AbortReason>,
    /// crash oracle, called at every changed write to the persistent buffer *before* the
    /// shadow is updated (the shadow is the image a crash right before this write leaves)
    pub crash: Option<Box<crate::crash::Crash>>,
}

impl World {
    pub fn new(n: usize, seed: u64) -> Self {
        Self {
            n,
            rng: Rng::new(seed),
            strat: Strategy::Uniform,
            alive: vec![true; n],
            started: vec![false; n],
            cur_call: vec![None; n],
            steps: 0,
            step_cap: 200_000,
            call_steps: vec![0; n],
            alloc_ptr: 0,
            cur_change: vec![false; n],
            pending_change: vec![None; n],
            change_on_reserved: None,
            call_cap: std::env::var("LLSIM_CALL_CAP")
                .ok()
                .and_then(|s| s.parse().ok())
                .unwrap_or(20_000),
            last_write: vec![false; n],
            prev_load: vec![false; n],
            sched_log: Vec::new(),
            replay: Vec::new(),
            replay_pos: 0,
            replay_then: None,
            last: MAIN,
            prio: Vec::new(),
            solo_points: Vec::new(),
            solo_active: None,
            solo_budget: u64::MAX,
            casfail_den: 0,
            casfail_replay: None,
            casfail_log: Vec::new(),
            lower: BufRange::default(),
            trees: BufRange::default(),
            locals: BufRange::default(),
            layout: LowerLayout::default(),
            shadow_lower: Vec::new(),
            shadow_trees: Vec::new(),
            shadow_locals: Vec::new(),
            track_volatile: true,
            writes: Vec::new(),
            keep_writes: false,
            persist_writes: 0,
            trace_hash: Hasher::default(),
            state_hash: 0,
            state_hashes: Vec::new(),
            state_sample: 1,
            last_access: Vec::new(),
            conflicts: 0,
            probes: Probes::default(),
            aborted: None,
            crash: None,
        }
    }

    /// Register the metadata buffers (after the allocator was initialised)
    pub fn attach(&mut self, frames: usize, lower: &[u8], trees: &[u8], locals: &[u8]) {
        self.lower = BufRange::of(lower);
        self.trees = BufRange::of(trees);
        self.locals = BufRange::of(locals);
        self.layout = LowerLayout::new(frames);
        self.shadow_lower = lower.to_vec();
        self.shadow_trees = trees.to_vec();
        self.shadow_locals = locals.to_vec();
        let words = (lower.len() + trees.len() + locals.len()) / 8 + 3;
        self.last_access = vec![(u8::MAX, false); words];
    }

    fn classify(&self, addr: usize) -> (Region, usize, usize) {
        if let Some(off) = self.lower.off(addr) {
            if off < self.layout.bitfield_bytes {
                (Region::Bitfield, off, off / 8)
            } else {
                (Region::Table, off, off / 8)
            }
        } else if let Some(off) = self.trees.off(addr) {
            (Region::Trees, off, self.lower.len / 8 + 1 + off / 8)
        } else if let Some(off) = self.locals.off(addr) {
            (
                Region::Locals,
                off,
                self.lower.len / 8 + self.trees.len / 8 + 2 + off / 8,
            )
        } else {
            (Region::Other, 0, usize::MAX)
        }
    }

    fn runnable(&self, t: usize) -> bool {
        self.alive[t]
    }
    fn lowest_alive(&self) -> Option<usize> {
        (0..self.n).find(|&t| self.alive[t])
    }

    /// Decide which thread performs the next step. `cur` is the deciding thread (may be dead or MAIN).
    pub fn choose(&mut self, cur: usize) -> Option<usize> {
        let alive: Vec<usize> = (0..self.n).filter(|&t| self.runnable(t)).collect();
        if alive.is_empty() {
            return None;
        }
        let cur_ok = cur != MAIN && self.alive[cur];
        let pick = if let Some((t, _)) = self.solo_active
            && self.alive[t]
        {
            // the recorded schedule contains the picks made inside solo windows too
            if self.strat == Strategy::Replay {
                self.replay_pos += 1;
            }
            t
        } else if self.strat == Strategy::Replay
            && self.replay_pos >= self.replay.len()
            && self.replay_then.is_some()
        {
            // the recorded prefix is used up: continue with a seeded strategy
            self.strat = self.replay_then.take().unwrap();
            return self.choose(cur);
        } else if self.strat == Strategy::Replay {
            let c = self.replay.get(self.replay_pos).copied();
            self.replay_pos += 1;
            match c {
                Some(c) if (c as usize) < self.n && self.alive[c as usize] => c as usize,
                // past the end: stay on the current thread
                None if cur_ok => cur,
                _ => self.lowest_alive().unwrap(),
            }
        } else if alive.len() == 1 {
            alive[0]
        } else {
            let strat = std::mem::replace(&mut self.strat, Strategy::Uniform);
            let pick = match &strat {
                Strategy::Uniform => alive[self.rng.below(alive.len())],
                Strategy::Burst { den } => {
                    if cur_ok && !self.rng.chance(1, *den) {
                        cur
                    } else {
                        alive[self.rng.below(alive.len())]
                    }
                }
                Strategy::AfterWrite { den } => {
                    let wrote = cur_ok && self.last_write.get(cur).copied().unwrap_or(false);
                    let switch = if wrote {
                        self.rng.chance(1, 2)
                    } else {
                        self.rng.chance(1, *den)
                    };
                    if cur_ok && !switch {
                        cur
                    } else {
                        let others: Vec<usize> =
                            alive.iter().copied().filter(|&t| t != cur).collect();
                        if others.is_empty() {
                            cur
                        } else {
                            others[self.rng.below(others.len())]
                        }
                    }
                }
                Strategy::Pct { change } => {
                    if cur_ok && change.contains(&self.steps) {
                        // demote the running thread below everybody
                        let min = *self.prio.iter().min().unwrap();
                        self.prio[cur] = min.saturating_sub(1);
                    }
                    *alive.iter().max_by_key(|&&t| self.prio[t]).unwrap()
                }
                Strategy::Stall { tid, from, len } => {
                    let stalled = self.steps >= *from && self.steps < from + len;
                    let cand: Vec<usize> = alive
                        .iter()
                        .copied()
                        .filter(|t| !(stalled && t == tid))
                        .collect();
                    if stalled && cand.len() < alive.len() {
                        self.probes.stall_fired += 1;
                    }
                    if cand.is_empty() {
                        alive[0]
                    } else if cur_ok && cand.contains(&cur) && !self.rng.chance(1, 3) {
                        cur
                    } else {
                        cand[self.rng.below(cand.len())]
                    }
                }
                Strategy::Replay => unreachable!(),
            };
            self.strat = strat;
            pick
        };
        self.sched_log.push(pick as u8);
        if cur_ok && pick != cur {
            self.probes.preemptions += 1;
        }
        Some(pick)
    }

    /// Book-keeping of one hooked atomic step of thread `tid` (before it executes).
    fn on_step(&mut self, tid: usize, op: Op, addr: usize, _size: usize) {
        self.steps += 1;
        if tid < self.n {
            // `last_write` describes the previous, completed operation of the thread
            if self.prev_load[tid] {
                self.last_write[tid] = false;
            }
            self.prev_load[tid] = matches!(op, Op::Load | Op::UpdateLoad);
        }
        if tid < self.n && self.cur_call[tid].is_some() {
            self.call_steps[tid] += 1;
            if self.call_steps[tid] + 80 > self.call_cap
                && std::env::var_os("LLSIM_TRACE_TAIL").is_some()
            {
                eprintln!(
                    "tail step {} {:?} addr {:#x} (lower {:#x} trees {:#x})",
                    self.call_steps[tid], op, addr, self.lower.start, self.trees.start
                );
            }
            if self.call_steps[tid] > self.call_cap && self.aborted.is_none() {
                self.aborted = Some(AbortReason::CallBudget {
                    tid,
                    steps: self.call_steps[tid],
                });
            }
        }
        // C15: what does the entry look like on which a tree-change call is about to
        // compare-exchange?  (threads are serialised: this is the value the exchange meets)
        if tid < self.n
            && self.cur_change[tid]
            && self.alloc_ptr != 0
            && matches!(op, Op::Cas | Op::CasWeak | Op::UpdateCas)
            && let Some(off) = self.trees.off(addr)
            && _size > 0
        {
            let tree = off / _size;
            let alloc = unsafe { &*(self.alloc_ptr as *const llfree::LLFree<'static>) };
            if tree < alloc.trees.len() {
                let reserved = masked(|| alloc.trees.stats_at(llfree::TreeId(tree)).2);
                self.pending_change[tid] = Some((tree, reserved));
            }
        }
        // solo windows
        if let Some((t, used)) = self.solo_active {
            if t == tid {
                self.solo_active = Some((t, used + 1));
                self.probes.solo_max_steps = self.probes.solo_max_steps.max(used + 1);
                if used + 1 > self.solo_budget {
                    self.aborted = Some(AbortReason::SoloBudget {
                        tid,
                        steps: used + 1,
                    });
                }
            }
        } else if let Some(pos) = self
            .solo_points
            .iter()
            .position(|&(s, t)| s <= self.steps && self.alive[t] && self.cur_call[t].is_some())
        {
            let (_, t) = self.solo_points.remove(pos);
            self.solo_active = Some((t, 0));
            self.probes.solo_windows += 1;
        }
        if self.steps > self.step_cap && self.aborted.is_none() {
            self.aborted = Some(AbortReason::StepCap);
        }
        // conflict tracking + interleaving hash
        let (region, off, word) = self.classify(addr);
        let write = !matches!(op, Op::Load | Op::UpdateLoad);
        if let Some(e) = self.last_access.get_mut(word) {
            if e.0 != u8::MAX && e.0 as usize != tid && (e.1 || write) {
                self.conflicts += 1;
            }
            *e = (tid as u8, write);
        }
        self.trace_hash
            .add(((tid as u64) << 56) | ((region as u64) << 48) | ((op as u64) << 40) | off as u64);
    }

    /// The call of `tid` returned: ends a solo window.
    pub fn call_end(&mut self, tid: usize) {
        self.cur_call[tid] = None;
        self.cur_change[tid] = false;
        self.pending_change[tid] = None;
        self.call_steps[tid] = 0;
        if let Some((t, _)) = self.solo_active
            && t == tid
        {
            self.solo_active = None;
        }
    }

    fn read(&self, addr: usize, size: usize) -> u64 {
        // threads are serialised, so a plain read is exact
        unsafe {
            match size {
                1 => *(addr as *const u8) as u64,
                2 => *(addr as *const u16) as u64,
                4 => *(addr as *const u32) as u64,
                _ => *(addr as *const u64),
            }
        }
    }

    fn on_after(&mut self, tid: usize, op: Op, addr: usize, size: usize, success: bool) {
        let (region, off, _) = self.classify(addr);
        self.trace_hash.add(success as u64);
        if tid < self.n {
            self.last_write[tid] = success;
            if let Some((tree, reserved)) = self.pending_change[tid].take()
                && success
                && reserved
                && self.change_on_reserved.is_none()
            {
                self.change_on_reserved = Some((tid, tree, self.steps));
            }
        }
        if !success {
            if matches!(op, Op::Cas | Op::CasWeak | Op::UpdateCas) {
                match region {
                    Region::Bitfield => self.probes.cas_fail_row += 1,
                    Region::Table => self.probes.cas_fail_table += 1,
                    Region::Trees => self.probes.cas_fail_tree += 1,
                    Region::Locals => self.probes.cas_fail_local += 1,
                    Region::Other => {}
                }
            }
            return;
        }
        if region == Region::Other {
            return;
        }
        if !self.track_volatile && !matches!(region, Region::Bitfield | Region::Table) {
            return;
        }
        let new = self.read(addr, size);
        let shadow = match region {
            Region::Bitfield | Region::Table => &self.shadow_lower,
            Region::Trees => &self.shadow_trees,
            _ => &self.shadow_locals,
        };
        let mut w = [0u8; 8];
        w[..size].copy_from_slice(&shadow[off..off + size]);
        let old = u64::from_le_bytes(w);
        if old == new {
            return;
        }
        let rec = WriteRec {
            step: self.steps,
            tid,
            call: if tid < self.n {
                self.cur_call[tid]
            } else {
                None
            },
            region,
            off,
            size,
            old,
            new,
        };
        match region {
            Region::Bitfield => {
                if new == u64::MAX && size == 8 {
                    self.probes.row_fill += 1
                }
                if new == 0 && size == 8 {
                    self.probes.row_clear += 1
                }
            }
            Region::Table => {
                if new == 0xffff {
                    self.probes.huge_marker_set += 1
                } else if old == 0xffff && new == 0 {
                    self.probes.huge_marker_cleared_to_zero += 1
                } else if old == 0xffff {
                    self.probes.huge_marker_freed += 1
                }
            }
            _ => {}
        }
        if matches!(region, Region::Bitfield | Region::Table) {
            self.persist_writes += 1;
            if let Some(c) = self.crash.as_mut() {
                c.on_write(&self.shadow_lower, &self.layout, &rec);
            }
        }
        let shadow = match region {
            Region::Bitfield | Region::Table => &mut self.shadow_lower,
            Region::Trees => &mut self.shadow_trees,
            _ => &mut self.shadow_locals,
        };
        shadow[off..off + size].copy_from_slice(&new.to_le_bytes()[..size]);
        // incremental state hash
        let key = |v: u64| {
            let mut h = Hasher::default();
            h.add(((region as u64) << 40) | off as u64);
            h.add(v);
            h.add(size as u64);
            h.finish()
        };
        self.state_hash ^= key(old) ^ key(new);
        if self.state_sample > 0 && self.steps % self.state_sample == 0 {
            self.state_hashes.push(self.state_hash);
        }
        if self.keep_writes {
            self.writes.push(rec);
        }
    }

    fn want_casfail(&mut self) -> bool {
        if self.solo_active.is_some() {
            return false;
        }
        let fire = if let Some(list) = &self.casfail_replay {
            list.contains(&self.steps)
        } else {
            self.casfail_den > 0 && self.rng.chance(1, self.casfail_den)
        };
        if fire {
            self.casfail_log.push(self.steps);
            self.probes.casfail_injected += 1;
        }
        fire
    }
}

// ---------------------------------------------------------------------------------------------

pub struct Shared {
    pub turn: AtomicUsize,
    pub main: Thread,
    pub handles: Mutex<Vec<Option<Thread>>>,
    pub world: Mutex<World>,
}

impl Shared {
    pub fn new(world: World) -> Self {
        let n = world.n;
        Self {
            turn: AtomicUsize::new(MAIN),
            main: std::thread::current(),
            handles: Mutex::new(vec![None; n]),
            world: Mutex::new(world),
        }
    }
    pub fn lock(&self) -> MutexGuard<'_, World> {
        self.world.lock().unwrap_or_else(|e| e.into_inner())
    }
    fn unpark(&self, t: usize) {
        if t == MAIN {
            self.main.unpark();
        } else {
            let h = self.handles.lock().unwrap_or_else(|e| e.into_inner());
            if let Some(Some(h)) = h.get(t) {
                h.unpark();
            }
        }
    }
    fn wait_turn(&self, me: usize) {
        while self.turn.load(Ordering::Acquire) != me {
            std::thread::park();
        }
    }
    fn hand_over(&self, me: usize, next: usize) {
        self.turn.store(next, Ordering::Release);
        self.unpark(next);
        if me != next {
            self.wait_turn(me);
        }
    }

    /// Called by a simulated thread when it starts: waits until scheduled.
    pub fn thread_begin(&self, tid: usize) {
        {
            let mut h = self.handles.lock().unwrap_or_else(|e| e.into_inner());
            h[tid] = Some(std::thread::current());
        }
        self.wait_turn(tid);
    }
    /// Called by a simulated thread when its program is done: passes the token on.
    pub fn thread_end(&self, tid: usize) {
        let next = {
            let mut w = self.lock();
            w.alive[tid] = false;
            w.cur_call[tid] = None;
            if let Some((t, _)) = w.solo_active
                && t == tid
            {
                w.solo_active = None;
            }
            w.choose(tid)
        };
        let next = next.unwrap_or(MAIN);
        self.turn.store(next, Ordering::Release);
        self.unpark(next);
    }
    /// Main thread: run all simulated threads to completion.
    pub fn run_all(&self) {
        // wait until all threads registered
        loop {
            let h = self.handles.lock().unwrap_or_else(|e| e.into_inner());
            if h.iter().all(|x| x.is_some()) {
                break;
            }
            drop(h);
            std::thread::yield_now();
        }
        let first = self.lock().choose(MAIN);
        if let Some(first) = first {
            self.hand_over(MAIN, first);
        }
    }

    fn before(&self, tid: usize, op: Op, addr: usize, size: usize) {
        let (next, abort) = {
            let mut w = self.lock();
            if w.aborted.is_some() {
                (tid, true)
            } else {
                w.on_step(tid, op, addr, size);
                if w.aborted.is_some() {
                    (tid, true)
                } else if w.n == 1 {
                    (tid, false)
                } else {
                    (w.choose(tid).unwrap_or(tid), false)
                }
            }
        };
        if abort {
            panic_any(SimAbort);
        }
        if next != tid {
            self.hand_over(tid, next);
            // we were rescheduled: if the run was aborted in the meantime, unwind
            if self.lock().aborted.is_some() {
                panic_any(SimAbort);
            }
        }
    }
}

pub struct ThreadCtx {
    pub tid: usize,
    pub shared: *const Shared,
}

thread_local! {
    static CUR: Cell<*const ThreadCtx> = const { Cell::new(null()) };
    static MASK: Cell<u32> = const { Cell::new(0) };
}

/// Install the thread context for the current (simulated) thread.
pub fn enter(ctx: &ThreadCtx) {
    CUR.with(|c| c.set(ctx as *const _));
}
pub fn leave() {
    CUR.with(|c| c.set(null()));
}
/// Run `f` with both hooks masked (harness observation of the allocator).
pub fn masked<R>(f: impl FnOnce() -> R) -> R {
    MASK.with(|m| m.set(m.get() + 1));
    struct Unmask;
    impl Drop for Unmask {
        fn drop(&mut self) {
            MASK.with(|m| m.set(m.get() - 1));
        }
    }
    let _g = Unmask;
    f()
}

fn cur() -> Option<&'static ThreadCtx> {
    if MASK.with(|m| m.get()) > 0 {
        return None;
    }
    let p = CUR.with(|c| c.get());
    if p.is_null() {
        None
    } else {
        Some(unsafe { &*p })
    }
}

fn before_hook(op: Op, addr: usize, size: usize) {
    if let Some(ctx) = cur() {
        unsafe { &*ctx.shared }.before(ctx.tid, op, addr, size);
    }
}
fn after_hook(op: Op, addr: usize, size: usize, success: bool) {
    if let Some(ctx) = cur() {
        let shared = unsafe { &*ctx.shared };
        // the observer may call into the allocator: mask while it runs
        let mut w = shared.lock();
        masked(|| w.on_after(ctx.tid, op, addr, size, success));
    }
}
fn casfail_hook(_addr: usize, _size: usize) -> bool {
    if let Some(ctx) = cur() {
        let shared = unsafe { &*ctx.shared };
        shared.lock().want_casfail()
    } else {
        false
    }
}

pub fn install_hooks() {
    #[cfg(not(feature = "nohook"))]
    llfree::verif::install(before_hook, after_hook, casfail_hook);
}
