//! Q10 (C20): a small discrete-event simulation of a traced multi-core kernel produces allocation
//! traces in the on-disk format of the shipped `replay` binary; the binary (real code, separate
//! process) replays them and the oracle is conservation of frames over the recorded history.

use std::collections::{BTreeMap, BTreeSet};
use std::io::Write;
use std::path::{Path, PathBuf};
use std::process::Command;
use std::time::Instant;

use crate::driver::{DEFAULT_SEED, Known, root, run_seed};
use crate::json::J;
use crate::model::{Block, HUGE_FRAMES};
use crate::rng::{Hasher, Rng};

const PAGE: usize = 4096;
const ENTRIES: usize = (PAGE - 4) / 16;

#[derive(Clone, Debug, PartialEq)]
pub struct Event {
    /// simulated time in milliseconds (distinct per event)
    pub t_ms: u64,
    pub core: u32,
    pub alloc: bool,
    pub pfn: u32,
    pub order: u8,
    pub flags: u32,
    pub pid: u32,
}

#[derive(Clone, Debug)]
pub struct Trace {
    pub cores: u32,
    pub max_pfn: u32,
    pub events: Vec<Event>,
}

impl Trace {
    pub fn to_json(&self) -> J {
        J::obj()
            .set("kind", "trace")
            .set("cores", self.cores)
            .set("max_pfn", self.max_pfn)
            .set(
                "events",
                J::Arr(
                    self.events
                        .iter()
                        .map(|e| {
                            J::Arr(vec![
                                J::from(e.t_ms),
                                J::from(e.core),
                                J::from(if e.alloc { "alloc" } else { "free" }),
                                J::from(e.pfn),
                                J::from(e.order),
                                J::from(e.flags),
                                J::from(e.pid),
                            ])
                        })
                        .collect(),
                ),
            )
    }
    pub fn from_json(j: &J) -> Option<Self> {
        Some(Self {
            cores: j.gu("cores") as u32,
            max_pfn: j.gu("max_pfn") as u32,
            events: j
                .garr("events")
                .iter()
                .filter_map(|e| {
                    let a = e.arr()?;
                    Some(Event {
                        t_ms: a.first()?.u()?,
                        core: a.get(1)?.u()? as u32,
                        alloc: a.get(2)?.s()? == "alloc",
                        pfn: a.get(3)?.u()? as u32,
                        order: a.get(4)?.u()? as u8,
                        flags: a.get(5)?.u()? as u32,
                        pid: a.get(6)?.u()? as u32,
                    })
                })
                .collect(),
        })
    }

    /// Serialise into the trace file format (header page + per-core trace pages)
    pub fn write(&self, path: &Path) -> std::io::Result<()> {
        let mut pages: Vec<Vec<u8>> = Vec::new();
        for core in 0..self.cores {
            let evs: Vec<&Event> = self.events.iter().filter(|e| e.core == core).collect();
            for chunk in evs.chunks(ENTRIES) {
                let mut page = vec![0u8; PAGE];
                page[0..4].copy_from_slice(&core.to_le_bytes());
                for (i, e) in chunk.iter().enumerate() {
                    // time_us:38 | pfn:24 | alloc:1 | order:4 | flags:29 | pid:32 (LSB first)
                    let v: u128 = ((e.t_ms * 1000) as u128 & ((1 << 38) - 1))
                        | ((e.pfn as u128 & 0xff_ffff) << 38)
                        | ((e.alloc as u128) << 62)
                        | ((e.order as u128 & 0xf) << 63)
                        | ((e.flags as u128 & 0x1fff_ffff) << 67)
                        | ((e.pid as u128) << 96);
                    let off = 16 + i * 16;
                    page[off..off + 16].copy_from_slice(&v.to_le_bytes());
                }
                pages.push(page);
            }
        }
        let mut f = std::fs::File::create(path)?;
        let mut header = vec![0u8; PAGE];
        header[0..4].copy_from_slice(&(pages.len() as u32).to_le_bytes());
        header[4..8].copy_from_slice(&self.cores.to_le_bytes());
        header[8..12].copy_from_slice(&self.max_pfn.to_le_bytes());
        f.write_all(&header)?;
        for p in pages {
            f.write_all(&p)?;
        }
        Ok(())
    }

    pub fn managed(&self) -> usize {
        (self.max_pfn as usize + 1).next_multiple_of(HUGE_FRAMES)
    }

    /// Frames the trace still holds at its end, by the trace's own semantics:
    /// a free releases exactly the named block if it lies inside an earlier, still present allocation.
    pub fn held_at_end(&self) -> usize {
        let mut evs: Vec<&Event> = self.events.iter().collect();
        evs.sort_by_key(|e| e.t_ms);
        let mut held: BTreeMap<u32, Block> = BTreeMap::new();
        for e in evs {
            let b = Block::new(e.pfn as usize, e.order as usize);
            if e.alloc {
                held.insert(e.pfn, b);
            } else {
                let cover = held
                    .range(..=e.pfn)
                    .next_back()
                    .map(|(_, h)| *h)
                    .filter(|h| h.contains(&b));
                if let Some(h) = cover {
                    held.remove(&(h.frame as u32));
                    for p in h.minus(&b) {
                        held.insert(p.frame as u32, p);
                    }
                }
            }
        }
        held.values().map(Block::len).sum()
    }
}

/// The toy kernel: cores with a shared simulated clock emit allocations (never overlapping,
/// aligned, pfn != 0) and frees (whole / first / middle / last part, parts of parts, unknown pfns)
pub fn generate(rng: &mut Rng) -> Trace {
    let cores = rng.range(1, 4) as u32;
    let trees = rng.range(1, 3);
    let managed = trees * crate::model::TREE_FRAMES;
    let max_pfn = (managed
        - 1
        - if rng.chance(1, 2) {
            rng.below(HUGE_FRAMES)
        } else {
            0
        }) as u32;
    let n = rng.range(3, 60);
    let mut events = Vec::new();
    // live blocks (after splits) the kernel may free
    let mut live: Vec<Block> = Vec::new();
    let mut used = vec![false; max_pfn as usize + 1];
    used[0] = true; // pfn 0 terminates a trace page
    let mut t = 0u64;
    let mode = rng.below(3); // 0: mixed, 1: partial-free heavy, 2: many small
    for _ in 0..n {
        t += rng.range(1, 40) as u64;
        if t >= 15_900 {
            break;
        }
        let core = rng.below(cores as usize) as u32;
        let flags = if rng.chance(1, 2) {
            0x08
        } else {
            *rng.pick(&[0u32, 0x10, 0x100, 0x1000_0000])
        };
        let pid = rng.below(5000) as u32;
        let in_use = used.iter().filter(|u| **u).count();
        let do_alloc = live.is_empty()
            || (in_use * 3 < managed && rng.chance(if mode == 1 { 2 } else { 3 }, 6));
        if do_alloc {
            let order = match mode {
                2 => rng.below(3),
                _ => *rng.pick(&[0usize, 0, 1, 2, 3, 4, 6, 9, 10]),
            };
            let len = 1usize << order;
            let slots = (max_pfn as usize + 1) / len;
            if slots == 0 {
                continue;
            }
            let start = rng.below(slots);
            let mut found = None;
            for i in 0..slots.min(256) {
                let f = ((start + i) % slots) * len;
                if f + len <= used.len() && used[f..f + len].iter().all(|u| !u) {
                    found = Some(f);
                    break;
                }
            }
            let Some(f) = found else { continue };
            used[f..f + len].iter_mut().for_each(|u| *u = true);
            live.push(Block::new(f, order));
            events.push(Event {
                t_ms: t,
                core,
                alloc: true,
                pfn: f as u32,
                order: order as u8,
                flags,
                pid,
            });
        } else if rng.chance(1, 12) {
            // free of a pfn the trace never allocated
            let f = rng.range(1, max_pfn as usize);
            if !used[f] {
                events.push(Event {
                    t_ms: t,
                    core,
                    alloc: false,
                    pfn: f as u32,
                    order: 0,
                    flags,
                    pid,
                });
            }
        } else {
            let k = rng.below(live.len());
            let b = live.swap_remove(k);
            let part = if b.order > 0 && rng.chance(if mode == 1 { 4 } else { 2 }, 5) {
                // first / middle / last part of some smaller order
                let so = rng.below(b.order);
                let parts = 1usize << (b.order - so);
                let idx = match rng.below(3) {
                    0 => 0,
                    1 => parts - 1,
                    _ => rng.below(parts),
                };
                Block::new(b.frame + idx * (1 << so), so)
            } else {
                b
            };
            // like the replayer's bookkeeping: the rest stays as parts of the freed order
            let mut f = b.frame;
            while f < b.end() {
                if f != part.frame {
                    live.push(Block::new(f, part.order));
                }
                f += part.len();
            }
            used[part.frame..part.end()]
                .iter_mut()
                .for_each(|u| *u = false);
            events.push(Event {
                t_ms: t,
                core,
                alloc: false,
                pfn: part.frame as u32,
                order: part.order as u8,
                flags,
                pid,
            });
        }
    }
    Trace {
        cores,
        max_pfn,
        events,
    }
}

pub struct Verdict {
    pub sig: Option<(String, String)>,
    pub free_frames: Option<usize>,
    pub expected: usize,
}

/// Run the shipped replay binary on the trace and judge its output
pub fn judge(bin: &Path, trace: &Trace, file: &Path) -> Verdict {
    let expected = trace.managed() - trace.held_at_end();
    if let Err(e) = trace.write(file) {
        return Verdict {
            sig: Some(("harness".into(), format!("cannot write trace: {e}"))),
            free_frames: None,
            expected,
        };
    }
    let out = Command::new(bin)
        .arg(file)
        .args(["--stride", "1"])
        .env("RUST_LOG", "error")
        .output();
    let _ = std::fs::remove_file(file);
    let out = match out {
        Ok(o) => o,
        Err(e) => {
            return Verdict {
                sig: Some(("harness".into(), format!("cannot run {bin:?}: {e}"))),
                free_frames: None,
                expected,
            };
        }
    };
    let stdout = String::from_utf8_lossy(&out.stdout);
    let stderr = String::from_utf8_lossy(&out.stderr);
    let json_start = stdout.find('{');
    let free = json_start
        .and_then(|i| J::parse(stdout[i..].trim()).ok())
        .map(|j| j.gu("free_frames") as usize);
    let sig = if !out.status.success() && stderr.contains("Memory") && stderr.contains("unwrap") {
        // the replayer ran out of memory (its placement differs from the traced kernel's):
        // nothing can be concluded from this trace
        Some(("inconclusive-oom".to_string(), String::new()))
    } else if !out.status.success() {
        let line = stderr
            .lines()
            .find(|l| l.contains("panicked") || l.contains("ERROR"))
            .unwrap_or("")
            .to_string();
        Some((
            "replay-exit-status".to_string(),
            format!(
                "replay exited with {}: {}",
                out.status,
                line.chars().take(300).collect::<String>()
            ),
        ))
    } else if let Some(l) = stderr.lines().find(|l| l.contains("Free failed")) {
        Some((
            "free-failed".to_string(),
            format!("replay logged: {}", l.chars().take(200).collect::<String>()),
        ))
    } else if free != Some(expected) {
        Some((
            "free-count-mismatch".to_string(),
            format!(
                "replay reports free_frames={free:?}, the trace holds {} of {} frames at its end, expected {expected}",
                trace.held_at_end(),
                trace.managed()
            ),
        ))
    } else {
        None
    };
    Verdict {
        sig,
        free_frames: free,
        expected,
    }
}

fn minimise(bin: &Path, trace: &Trace, sig: &str, file: &Path) -> (Trace, usize) {
    let mut best = trace.clone();
    let mut tries = 0;
    let mut chunk = best.events.len().div_ceil(2).max(1);
    loop {
        let mut progress = false;
        let mut i = 0;
        while i < best.events.len() && tries < 400 {
            let mut cand = best.clone();
            let end = (i + chunk).min(cand.events.len());
            cand.events.drain(i..end);
            tries += 1;
            if judge(bin, &cand, file).sig.is_some_and(|s| s.0 == sig) {
                best = cand;
                progress = true;
            } else {
                i += chunk;
            }
        }
        if chunk == 1 && !progress {
            break;
        }
        chunk = (chunk / 2).max(1);
        if tries >= 400 {
            break;
        }
    }
    // simpler: one core, small pfns are kept as is
    let mut cand = best.clone();
    cand.cores = 1;
    cand.events.iter_mut().for_each(|e| e.core = 0);
    tries += 1;
    if judge(bin, &cand, file).sig.is_some_and(|s| s.0 == sig) {
        best = cand;
    }
    (best, tries)
}

fn replay_bin() -> PathBuf {
    PathBuf::from(std::env::var("LLSIM_REPLAY_BIN").unwrap_or_else(|_| {
        root()
            .join("sim/target/eval/release/replay")
            .display()
            .to_string()
    }))
}

/// `llsim replay` of a trace case
pub fn replay_trace(j: &J, file: &Path) -> i32 {
    let Some(trace) = j.get("case").and_then(Trace::from_json) else {
        eprintln!("bad trace case");
        return 2;
    };
    let tmp = root().join("sim/target/tmp");
    let _ = std::fs::create_dir_all(&tmp);
    let v = judge(
        &replay_bin(),
        &trace,
        &tmp.join(format!("replay-{}.bin", std::process::id())),
    );
    match v.sig {
        Some((s, d)) if s == j.gs("signature") => {
            println!("observed: property=C20 signature={s} :: {d}");
            println!("VIOLATION property=C20 replay={}", file.display());
            1
        }
        Some((s, d)) => {
            println!(
                "not reproduced: expected {}, observed {s}: {d}",
                j.gs("signature")
            );
            if s == "harness" { 2 } else { 0 }
        }
        None => {
            println!(
                "not reproduced: free_frames={:?} expected {}",
                v.free_frames, v.expected
            );
            0
        }
    }
}

pub fn check(tier: &str) -> i32 {
    let seed: u64 = std::env::var("VERIF_SEED")
        .ok()
        .and_then(|s| s.parse().ok())
        .unwrap_or(DEFAULT_SEED);
    let runs: u64 = if tier == "thorough" { 40_000 } else { 1200 };
    let workers = 16u64;
    let bin = replay_bin();
    println!(
        "llsim check C20 tier={tier} VERIF_SEED={seed} traces={runs} binary={}",
        bin.display()
    );
    if !bin.exists() {
        println!("HARNESS-ERROR: replay binary not built: {}", bin.display());
        return 2;
    }
    let start = Instant::now();
    let tmp = root()
        .join("sim/target/tmp")
        .join(format!("C20-{}", std::process::id()));
    let _ = std::fs::remove_dir_all(&tmp);
    std::fs::create_dir_all(&tmp).unwrap();
    struct Acc {
        evals: u64,
        hashes: BTreeSet<u64>,
        found: BTreeMap<String, (u64, u64, String, Trace)>,
        counters: BTreeMap<&'static str, u64>,
        samples: Vec<J>,
        harness: Vec<String>,
    }
    let accs: Vec<Acc> = std::thread::scope(|s| {
        let handles: Vec<_> = (0..workers)
            .map(|w| {
                let bin = &bin;
                let tmp = &tmp;
                s.spawn(move || {
                    let mut a = Acc {
                        evals: 0,
                        hashes: BTreeSet::new(),
                        found: BTreeMap::new(),
                        counters: BTreeMap::new(),
                        samples: Vec::new(),
                        harness: Vec::new(),
                    };
                    let mut i = w;
                    while i < runs {
                        let rs = run_seed(seed, "Q10", i);
                        let mut rng = Rng::new(rs);
                        let trace = generate(&mut rng);
                        let v = judge(bin, &trace, &tmp.join(format!("t{w}.bin")));
                        a.evals += 1;
                        let mut h = Hasher::default();
                        h.add_bytes(format!("{:?}", trace.events).as_bytes());
                        let partial = {
                            // frees that release only part of an earlier allocation
                            let mut held: BTreeMap<u32, Block> = BTreeMap::new();
                            let mut n = 0u64;
                            let mut evs: Vec<&Event> = trace.events.iter().collect();
                            evs.sort_by_key(|e| e.t_ms);
                            for e in evs {
                                let b = Block::new(e.pfn as usize, e.order as usize);
                                if e.alloc {
                                    held.insert(e.pfn, b);
                                } else if let Some(hb) = held
                                    .range(..=e.pfn)
                                    .next_back()
                                    .map(|(_, h)| *h)
                                    .filter(|h| h.contains(&b))
                                {
                                    if hb != b {
                                        n += 1;
                                    }
                                    held.remove(&(hb.frame as u32));
                                    for p in hb.minus(&b) {
                                        held.insert(p.frame as u32, p);
                                    }
                                }
                            }
                            n
                        };
                        *a.counters.entry("events").or_default() += trace.events.len() as u64;
                        *a.counters.entry("alloc_events").or_default() +=
                            trace.events.iter().filter(|e| e.alloc).count() as u64;
                        *a.counters.entry("free_events").or_default() +=
                            trace.events.iter().filter(|e| !e.alloc).count() as u64;
                        *a.counters.entry("partial_free_events").or_default() += partial;
                        *a.counters.entry("multi_core_traces").or_default() +=
                            (trace.cores > 1) as u64;
                        if trace.events.iter().any(|e| !e.alloc) {
                            a.hashes.insert(h.finish());
                        }
                        if w == 0 && a.samples.len() < 2 && partial > 0 {
                            a.samples.push(
                                trace
                                    .to_json()
                                    .set("replay_free_frames", v.free_frames)
                                    .set("expected_free_frames", v.expected),
                            );
                        }
                        if let Some((sig, detail)) = v.sig {
                            if sig == "inconclusive-oom" {
                                *a.counters.entry("inconclusive_replayer_oom").or_default() += 1;
                            } else if sig == "harness" {
                                a.harness.push(detail);
                            } else {
                                let e = a.found.entry(sig).or_insert((0, i, detail, trace));
                                e.0 += 1;
                            }
                        }
                        i += workers;
                    }
                    a
                })
            })
            .collect();
        handles.into_iter().map(|h| h.join().unwrap()).collect()
    });
    let mut evals = 0;
    let mut hashes = BTreeSet::new();
    let mut found: BTreeMap<String, (u64, u64, String, Trace)> = BTreeMap::new();
    let mut counters: BTreeMap<&'static str, u64> = BTreeMap::new();
    let mut samples = Vec::new();
    let mut harness = Vec::new();
    for a in accs {
        evals += a.evals;
        hashes.extend(a.hashes);
        for (k, v) in a.counters {
            *counters.entry(k).or_default() += v;
        }
        samples.extend(a.samples);
        harness.extend(a.harness);
        for (k, v) in a.found {
            match found.get_mut(&k) {
                Some(e) => {
                    e.0 += v.0;
                    if v.1 < e.1 {
                        e.1 = v.1;
                        e.2 = v.2;
                        e.3 = v.3;
                    }
                }
                None => {
                    found.insert(k, v);
                }
            }
        }
    }
    let known = Known::load();
    let replay_dir = root().join("replays");
    std::fs::create_dir_all(&replay_dir).unwrap();
    let mut violations = 0;
    let mut known_lines = Vec::new();
    for (sig, (count, index, detail, trace)) in &found {
        if let Some(k) = known.matches("C20", sig) {
            known_lines.push(format!(
                "KNOWN-FINDING: property=C20 {} [signature {sig}, seen in {count} traces]",
                k.gs("what")
            ));
            continue;
        }
        let (small, tries) = minimise(&bin, trace, sig, &tmp.join("min.bin"));
        let v = judge(&bin, &small, &tmp.join("min.bin"));
        let file = replay_dir.join(format!("C20-{sig}-{index}.min.json"));
        let rec = J::obj()
            .set("property", "C20")
            .set("signature", sig.clone())
            .set("detail", v.sig.map(|s| s.1).unwrap_or(detail.clone()))
            .set("family", "Q10")
            .set("run_index", *index)
            .set("verif_seed", seed)
            .set("minimiser_executions", tries)
            .set("case", small.to_json());
        std::fs::write(&file, rec.to_pretty()).unwrap();
        // confirm in a fresh process
        let ok = Command::new(std::env::current_exe().unwrap())
            .arg("replay")
            .arg(&file)
            .output()
            .is_ok_and(|o| o.status.code() == Some(1));
        if ok {
            violations += 1;
            println!("  C20:{sig}: {detail} (seen in {count} traces)");
            println!("VIOLATION property=C20 replay={}", file.display());
        } else {
            harness.push(format!(
                "violation {sig} did not reproduce from {}",
                file.display()
            ));
        }
    }
    for l in &known_lines {
        println!("{l}");
    }
    let wall = start.elapsed().as_secs_f64();
    let coverage = J::obj()
        .set("evaluations", evals)
        .set("distinct_nontrivial", hashes.len())
        .set("rule", "one run = one synthetic multi-core trace (1-4 cores, simulated clock, allocations of orders 0..10 placed by a toy allocator, whole/first/middle/last/part-of-part frees, frees of unknown pfns) replayed by the shipped replay binary; distinct = distinct event list; non-trivial = contains at least one free event")
        .set("samples", J::Arr(samples))
        .set("runs_per_hour", (evals as f64 / wall.max(0.001) * 3600.0) as u64)
        .set("simulated_time_ms", counters.get("events").copied().unwrap_or(0) * 20)
        .set("counters_and_probes", J::Obj(counters.iter().map(|(k, v)| (k.to_string(), J::from(*v))).collect()))
        .set("faults_fired", J::obj().set("fault_free_of_unknown_pfn", "counted inside free_events").set("note", "no crash/schedule faults: the replay binary is single-threaded and deterministic; the simulated part is the traced kernel"))
        .set("exhaustive", false)
        .set("known_findings_seen", J::Arr(known_lines.iter().map(|s| J::from(s.clone())).collect()))
        .set(
            "real_vs_stub",
            J::obj()
                .set("real", "the shipped replay binary built from /repo/eval (LLFree inside), run as a separate process")
                .set("simulated", "the traced kernel: cores, clock, page allocator producing the pfns (toy model), the trace file"),
        )
        .set("harness_errors", J::Arr(harness.iter().map(|s| J::from(s.clone())).collect()));
    let ev = J::obj()
        .set("property_id", "C20")
        .set("tier", tier)
        .set("seed", seed)
        .set("level", "exploration")
        .set("coverage", coverage)
        .set(
            "assumptions",
            J::Arr(vec![
                J::from("timestamps are distinct multiples of 1 ms below 16 s, which f32 seconds represent without collision, so the binary's stable sort reproduces the generated order"),
                J::from("re-allocations of a still present pfn are not generated (their trace semantics are ambiguous)"),
                J::from("the oracle sees counts and log lines only: a free of the wrong frames is detected when a later free of the same allocation fails or the final count differs"),
            ]),
        )
        .set("wall_s", wall)
        .set("violations", violations as u64);
    std::fs::create_dir_all(root().join("evidence")).unwrap();
    std::fs::write(root().join("evidence/C20.json"), ev.to_pretty()).unwrap();
    let _ = std::fs::remove_dir_all(&tmp);
    println!(
        "C20 {tier}: {evals} traces, {} distinct non-trivial, {wall:.1}s, violations={violations}, known={}",
        hashes.len(),
        known_lines.len()
    );
    for e in &harness {
        println!("HARNESS-ERROR: {e}");
    }
    if violations > 0 {
        1
    } else if !harness.is_empty() {
        2
    } else {
        0
    }
}
